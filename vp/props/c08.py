"""C08 - an accepted field value can never inject fields or split the paragraph.

Deciding monitor M (boundary, public API only): every generated value v is
assigned to a field of a live ``Deb822`` paragraph (item assignment, and the
other assignment routes that funnel into it: ``update``, ``setdefault``,
``Deb822(dict)``, ``copy()``).

* accepted  -> ``dump()`` is re-read by ``Deb822.iter_paragraphs`` from ``str``
  and from ``bytes``, with ``whitespace-separates-paragraphs=False`` always and
  with the default setting whenever no continuation line of v is blank; the
  re-read must give exactly one paragraph with exactly the field names
  ``list(d)`` (M.reread).  ``str``/``bytes`` are cut into lines by the library
  with ``splitlines()`` (a CR is a line boundary there).  The dump is therefore
  also re-read in forms whose lines are cut at LF ONLY, as when it went through
  a file (M.reread-lf, a sub-count of M.reread): ``io.StringIO``,
  ``io.BytesIO``, a real text file and a real binary file written by
  ``dump(fd)``, the list ``dump.split('\\n')`` with and without terminators -
  through ``iter_paragraphs`` and through the ``Deb822(...)`` constructor.
  Only the number of paragraphs and the field NAMES are compared, never the
  values (the statement does not promise equal values).
  Independently, an accepted v must carry none of the three stated defects
  according to the reference model ``vp.models.deb822value`` (M.must-reject).
* rejected  -> the exception is ValueError and ``list(d)`` / ``dump()`` are what
  they were before (M.unchanged).

PARSE SIDE (values also enter a paragraph by parsing): documents - lists of physical lines cut at LF only, handed
over as lists of str/bytes lines, generators, ``io.StringIO``, ``io.BytesIO``, real text/binary files - in which a
field line or a continuation line contains a lone CR (or a CR LF inside ONE list element) followed by text that would
be rejected as an assigned value are fed to ``Deb822.iter_paragraphs`` / ``Deb822(...)`` (M.parse).  If the parser
raises, nothing is demanded.  If it hands back a paragraph: (a) every value of it must be free of the three stated
defects per the same model (M.parsed-value: what the validator must reject must not be obtainable by parsing either);
(b) after ordinary accepted assignments to the paragraph its dump is re-read exactly as above and must give ONE
paragraph with the same field names (M.reread-parsed, a sub-count of M.reread).  The same history - parse, assign,
assign, dump, re-read - is driven on paragraphs parsed from ordinary documents, with hostile assigned values judged
as on the assignment side (M.must-reject / M.unchanged).

SUBCLASS LAYER (case kind ``sub``): the same assignment -> dump -> re-read discipline on ``Dsc``, ``Changes``,
``BuildInfo``, ``Sources``, ``Packages``, ``Release`` and ``PdiffIndex`` paragraphs (plain ``Deb822`` as control), for
ordinary fields AND for field NAMES that are multivalued in one class but ordinary text in another (Files,
Checksums-*, MD5Sum, SHA1, SHA256, SHA256-History ...).  A case is a HISTORY of self-contained steps in one process:
*prime* steps let a class in which the name is multivalued parse it / be assigned records or a string under it
(nothing is demanded of them), *judge* steps assign a mostly hostile string to a class in which the name is an
ordinary field and are judged exactly as above (M.must-reject / M.unchanged / K; M.cross-class counts the judged
assignments of a name some other class has handled as multivalued before).  Acceptance or rejection must not depend
on what other classes or objects did before.  An accepted value is dumped and re-read through THAT class's own
``iter_paragraphs`` / constructor with an explicit strict setting, from text, line lists and files (M.reread-sub, a
sub-count of M.reread) - in particular values holding a whitespace-only continuation line followed by further fields,
where ``whitespace-separates-paragraphs=False`` must be honoured at every stage of the subclass constructors.
A witness is re-executed in a fresh interpreter (the judged step alone, the case, the case with the preceding steps of
the process as ``prelude``) and the smallest one that fails there is reported.

STRINGS UNDER MULTIVALUED NAMES (step op ``mvstr`` of the ``sub`` kind, M.mvstr): in ``Dsc`` / ``Changes`` /
``BuildInfo`` / ``Sources`` / ``Release`` / ``PdiffIndex`` a STRING (not a record list) is assigned to a field the class
treats as multivalued - there assignment-time validation is skipped and the class relies on its dump-time formatter -
and at least one more field follows it.  Three outcomes: the assignment raises (any exception; the paragraph must be
unchanged - M.mvstr.unchanged / K), ``dump()`` raises (any exception; ``dump(fd)`` is then tried once and judged if it
completes), or ``dump()`` returns text.  The first two are the library's choice and only counted.  Text is re-read through the class's own ``iter_paragraphs`` AND through
``Deb822.iter_paragraphs`` (str always; bytes, LF-only line/stream/file forms and the constructors by rotation;
``whitespace-separates-paragraphs=False`` always, the default setting when neither the string nor any text value of
the paragraph has a blank continuation line) and must give ONE paragraph with exactly the names the paragraph holds,
none of which may be a name that was never assigned (M.reread-mvstr, a sub-count of M.reread-sub).  The same is done
with the string payloads of the *prime* steps.  No other demand: a defective string that the class normalises into
records is fine, and nothing says which strings must be accepted.

MAPPING OBJECTS AS THE SOURCE (case kind ``via``, M.via): the value reaches a paragraph of ``Deb822`` or one of the seven
subclasses (under a name that is an ordinary text field there) through ``p.update(other)``, ``p.update(other, **kw)``,
``cls(other)``, ``p |= other`` or ``p | other``, where ``other`` is a mapping OBJECT holding the string: a bare
``Deb822Dict`` (never validates), a ``Deb822`` built without validation (``_parsed=`` backing mapping; the storing half of
item assignment alone), a ``Dsc`` / ``Changes`` / ``BuildInfo`` / ``Sources`` / ``Release`` / ``PdiffIndex`` holding it under
a name that is multivalued THERE, an ``OrderedDict`` / ``MappingProxyType`` / ``UserDict`` / ``ChainMap`` (around a dict
or a ``Deb822Dict``), an object with ``keys()`` and ``__getitem__`` only, an iterable of pairs.  Whatever the route and
whatever the TYPE of the source: the operation raises (a value with a stated defect; the paragraph it was applied to is
unchanged - M.via.unchanged / K), or it does not - then every value the paragraph holds must be free of the three stated
defects (M.via.must-reject), no name may have appeared that was never assigned, and the dump is re-read through the class
and through plain ``Deb822`` exactly as in the subclass layer (M.reread-via, a sub-count of M.reread).

Auxiliary K-monitor: contract on the exceptional exit of
``Deb822.__setitem__`` (every binding): the mapping is unchanged.

No "must accept" demand is made anywhere: a value without a stated defect that
is rejected is only counted.
"""
import hashlib
import io
import itertools
import os
import re
import zlib

from ..models import deb822value as model

PROP = 'C08'
LEVEL = 'exploration'

TOKENS = ['a', ':', '#', ' ', '\t', '\r', '\n', '-', '.', 'B: x']
ENUM_MAXLEN = {'quick': 5, 'thorough': 7}
BLOCK_SUFFIX = 3                     # one enum case = one prefix x all 10^3 suffixes
RANDOM_TOTAL = {'quick': 21000, 'thorough': 900000}

RULE = ('Values: (1) ENUMERATED - every concatenation of <= 5 (quick) / <= 7 (thorough) tokens from '
        "['a', ':', '#', ' ', TAB, CR, LF, '-', '.', 'B: x'], each assigned to the middle field of a 3-field "
        'paragraph and (rotating with the value; for length 7 on every third value) to a sole/first/last/new field of '
        'paragraphs of 1..4 fields, some with multi-line neighbours; (2) RANDOM - seeded longer values built from lines (printable ASCII and a few '
        "non-ASCII letters, 'Key: value' look-alikes, '#' comments, PGP armour lines, whitespace-only lines) joined by "
        'LF / CR LF / CR with mostly-indented continuations, assigned through item assignment, update(), '
        'setdefault(), Deb822(dict) and re-checked after copy(), target field first/middle/last/new in paragraphs '
        'of 1..4 fields; 1 random value in 6 is CR-CENTRED (boundaries mostly bare CR / CR LF, first line often blank '
        "so that the dump reads 'Field: <blanks> CR ...', value often ending in CR).  "
        '(3) RE-READ FORMS of every accepted assignment: always str and bytes through iter_paragraphs (the library cuts '
        'them with splitlines(): CR is a boundary).  LF-ONLY forms (lines cut at LF only, as when the dump went through '
        "a file): io.StringIO(dump), io.BytesIO(dump bytes), the list dump.split('\\n') re-terminated with LF, the same "
        'list without terminators, a real text file (newline=LF, utf-8) and a real binary file written by dump(fd) and '
        'rewound (two scratch files per shard, rewritten in place); plus the text file re-opened with Python\'s default '
        'newline translation.  Each through iter_paragraphs(strict=...) and/or the Deb822(source, strict=...) '
        'constructor (first paragraph; on an iterator/file a second constructor call reads what follows and must find '
        'nothing).  Which forms a value goes through: an enumerated value CONTAINING CR of <= 6 tokens (and every 32nd of '
        '7 tokens) in the 3-field layout -> BytesIO, the list without terminators, StringIO or the re-terminated list '
        '(both hand over str lines ending in LF) and one of the two files (+ for 1 in 4 a constructor re-read / the '
        'translated text file); every other accepted CR value (other layouts: the first '
        'rotated layout only, for 7 tokens on every 2nd value; every 2nd value of 7 tokens; 1 in 2 (quick) / 3 in 4 (thorough) random ones) -> one (form, API) pair chosen '
        'by a CRC of the value out of 15 pairs (the six LF-only iter_paragraphs pairs weighing double); the remaining random CR values -> two LF-only forms + one '
        'constructor re-read; values without CR (there the LF-only cut equals the splitlines() cut) -> one pair for a '
        'rotating fraction; the dump of copy() -> one pair; a --replay runs all 18 (form, API) pairs.  '
        'A value is NON-TRIVIAL when it contains a line boundary (LF or CR); distinct = distinct value string.  '
        '(4) PARSE SIDE - documents given as physical lines cut at LF only and handed to Deb822.iter_paragraphs (3 in 4) / '
        'Deb822(...) (1 in 4), strict default or whitespace-separates-paragraphs=False, in nine LF-only input forms: list of '
        'str lines without / with LF terminators, list of bytes lines without / with terminators, a one-shot generator of '
        'lines, io.StringIO, io.BytesIO, a real text file and a real binary file.  (4a) ENUMERATED hot lines: every '
        "concatenation s of <= 4 (quick) / <= 6 (thorough) tokens from ['a', ':', ' ', TAB, CR, CR LF, '#', '-', 'B: x'] in five "
        "contexts - 'Fld: '+s, 'Fld: old'+s, 'Fld:'+s, continuation ' c1'+s after 'Fld: old', first continuation ' '+s after "
        "'Fld:' (the longest length is thinned out: quick - every string in the 1st and 4th context, every 3rd in the others; "
        'thorough - every 3rd / every 9th) - inside five rotating paragraph '
        'layouts (middle / sole / last / first field followed by a second paragraph / comments and multi-line neighbours), form, '
        'API, strict setting and the following assignments (five short histories incl. a rejected assignment and a CR '
        'value) chosen by a CRC of s; a CR LF token stays inside ONE list element in the list forms and cuts the line in '
        'the stream forms.  (4b) SEEDED HISTORIES: ordinary documents of 1..3 paragraphs (1..4 fields, multi-line values, '
        'odd colon spacing, comments, whitespace-only lines); half of them get ONE injection - a junk of CR / CR CR / CR LF / '
        "blank CR ... plus a tail ('Key: value' look-alikes, comment, PGP armour, blank, indented text) appended to or cut "
        'into a field or continuation line; 1 in 10 is an ordinary CR LF terminated file; un-injected ones are also parsed '
        'from str / bytes; 1 in 10 with a fields= filter; then 1..5 assignments (item assignment, update, setdefault; 70% '
        'hostile random values as in (2)) to present / new fields of every paragraph (first three), each judged as on the '
        'assignment side, and after at least one accepted assignment the dump is re-read (str, bytes; for half of the cases one more '
        '(form, API) pair of (3)).  A document is NON-TRIVIAL when a physical line contains CR or it has a continuation '
        'line; distinct = distinct list of lines.  '
        '(5) SUBCLASS LAYER - histories of self-contained steps on fresh Dsc / Changes / BuildInfo / Sources / Packages / '
        'Release / PdiffIndex / Deb822 objects, executed FIRST in every shard process (no class has handled any multivalued '
        'name yet).  A PRIME step lets a class in which name X is multivalued handle X: parse a document holding X records '
        '(str, bytes, line lists, generator, StringIO, BytesIO; constructor or iter_paragraphs; records on continuation '
        'lines or one record on the field line), item-assign / update / construct-from-dict a record list, a single '
        'record, or a STRING (often the very string judged next) - followed by dump, re-read and copy(), each on its own.  '
        'A JUDGE step builds a paragraph of a class in which the target name is an ordinary field (by assignment, from a '
        'dict, by parsing its own dump from str / StringIO; six layouts: target middle / first / before or after the '
        "class's own multivalued field holding records / new-last / sole), assigns one string (item assignment, update, "
        'setdefault, cls(dict), and re-checked after copy()) and is judged as in (1)-(3).  (5a) CROSS-CLASS ENUMERATION: '
        'every (name X of 14, class A where X is multivalued, class B where it is ordinary) - 133 triples - x 6 ways of '
        'priming x 2 orders (quick: three of the six ways per order, complementary between the orders): [prime A; B hostile; B accepted value; B2 hostile] and [B hostile; prime A; B same hostile; B2 '
        'accepted; B hostile], the order-2 cases first; hostile / accepted values rotate over 10 + 8 fixed strings incl. '
        'record look-alikes.  (5b) WHITESPACE-ONLY CONTINUATION: 8 classes x 10 accepted values holding a whitespace-only '
        'continuation line (LF, CR LF and CR boundaries) x 3 layouts in which further fields follow x 2 builds; each (class, '
        'value) (quick: two of the three layouts) re-read once in ALL 19 (form, API) pairs of its class (+ str through Deb822), the other variants in 2 + 5.  (5c) FIELDS: every class x each '
        'of its usual ordinary fields, its relationship fields, Version, Package-List: 3 hostile + 1 accepted value.  '
        '(5d) SEEDED HISTORIES of 1..6 steps (35% primes) around one focal name (75%), targets: focal name / a name '
        "multivalued elsewhere / the class's own fields / Package-List / a new name; values 30% with a whitespace-only "
        'continuation line, 55% random as in (2), 15% fixed.  RE-READ of an accepted subclass assignment: str through '
        'cls.iter_paragraphs always, plus (alternating by a CRC of the value) bytes through cls.iter_paragraphs or str '
        'through Deb822.iter_paragraphs; a value with a blank continuation line: '
        '+3 LF-only iter forms and 2 constructor forms; a CR value: +1..3; half of the rest: +1; out of StringIO, BytesIO, '
        'line lists with/without LF (as list for iter_paragraphs, as iterator AND as plain list for the constructor), text '
        'and binary file written by dump(fd); each with strict={whitespace-separates-paragraphs: False} and, when no value of '
        'the paragraph has a blank continuation line, with strict=None.  '
        '(6) STRINGS UNDER MULTIVALUED NAMES - one-step histories (op mvstr), run after (5): a class in which the name IS '
        'multivalued (34 (class, name) pairs of Dsc / Changes / BuildInfo / Sources / Release / PdiffIndex, + Package-List '
        'of Dsc / Sources, + whatever else a class declares when the shard starts) is assigned a STRING under it through '
        'item assignment / update / setdefault / cls(dict) / item assignment followed by copy() (both objects judged), '
        'in five layouts (new field then one more field assigned; replacing parsed or assigned records in the middle / '
        'at the start; sole field then two more; behind another multivalued field holding records), paragraph built by '
        'assignment or by parsing its own dump (str / StringIO), Release sometimes with size_field_behavior=dak; always '
        'at least one field FOLLOWS the string.  (6a) SHAPES: every pair x 47 record texts of the right column count '
        '(well-formed with / without leading LF, one record on the field line; each with a TRAILING LF, CR LF, CR, LF LF; an empty line '
        'inside (LF, CR LF, CR); an UNINDENTED continuation line that is a column-correct record reading like a field '
        "('Inj: y z', after LF / CR / CR LF, first / middle / all lines); ending in / holding a blank-only line; indented "
        'look-alike, comment, PGP armour, CR inside a token, tabs, empty / LF / blank / word, short and long record) x 5 '
        'routes x 2 layouts (quick: every (pair, shape) with one rotating route + every (class, route, shape) on a '
        'rotating name).  (6b) TOKENS: every concatenation s of <= 3 (quick) / <= 5 (thorough) tokens of the alphabet of '
        "(1) in five contexts - s alone; well-formed record text + s; s opening the line after a record (padded so that "
        "'B: x' makes a column-correct record); s inside an indented line between two records; a single record on the "
        'field line + s - (class, name) and layout by a CRC of s, routes rotating (longest length thinned: quick every '
        '2nd string except behind a record, thorough every 4th).  (6c) SEEDED: 45% well-formed record text with one or '
        'two defects put in (trailing boundary, empty / blank-only / unindented / look-alike / comment / PGP line, CR or '
        'tab inside a line), 30% random values as in (2), 12% whitespace-only-continuation values, 13% fixed hostile / '
        'accepted values.  Outcome per object: assignment raised / dump raised (both counted, nothing demanded beyond an '
        'unchanged paragraph after a refused assignment) / dump returned text -> re-read: str through '
        'cls.iter_paragraphs and through Deb822.iter_paragraphs always, bytes through the class for every 2nd value, plus '
        'LF-only forms and constructor forms as in (5) (blank continuation: 5 more pairs; CR: 1..3; half of the rest: 1; '
        'a --replay: all); when dump() raises, dump(fd) into a StringIO is tried and whatever it completes is re-read as '
        'str / bytes.  The string payloads of the prime steps of (5) are judged the same way.  NON-TRIVIAL: the '
        'string contains a line boundary; distinct = distinct (class, name, string).  '
        '(7) MAPPING OBJECTS AS THE SOURCE (case kind via), run after (6): the string is carried to a paragraph of Deb822 / '
        'Dsc / Changes / BuildInfo / Sources / Packages / Release / PdiffIndex - under a name that is ordinary text THERE: a usual '
        'field of the class, a name multivalued in another class (1 in 3), a new name; four layouts: middle / new-last / first / '
        'sole - by one of five ROUTES: p.update(other), p.update(other, **kw) (the string in other, or in kw while other holds '
        'ordinary values / nothing; p.update(**kw) alone rides along with the dict source), cls(other) (other holds the whole '
        'paragraph), p |= other, p | other; and eleven SOURCE TYPES: dict (control), a bare Deb822Dict (built from pairs / '
        'from a dict), a Deb822 or an object of the target class made without validation - values pulled from a _parsed= backing '
        'Deb822Dict; values stored with Deb822Dict.__setitem__, the storing half of item assignment -, an object of a class in '
        'which the carried name IS multivalued (Dsc / Changes / BuildInfo / Sources / Release / PdiffIndex, string item-assigned '
        'there), OrderedDict, MappingProxyType, UserDict, ChainMap (one map / the string in the first / in the second map) - the '
        'last three around a dict or around a Deb822Dict -, an object offering keys() and __getitem__ only, an iterable of '
        'pairs (iterator, generator, list of tuples, tuple of lists); the last two not with cls(other), which reads them as a '
        'sequence of lines.  The source holds the one pair only (2 in 5) or ordinary pairs before / after / around it.  '
        '(7a) every (route, source type) - 53 - x 8 classes x the 28 fixed hostile / accepted / whitespace-only-continuation '
        'values of (5) x 2 layouts (quick: 2 hostile + 1 accepted + 1 whitespace-only value per combination, operators: the 2 '
        'hostile ones); (7b) TOKENS: every concatenation of <= 3 (quick) / <= 5 (thorough, longest length every 3rd) tokens of '
        'the alphabet of (1), class rotating, (route, source type) by a CRC of the string with update weighing 3, update with '
        'keywords and the constructor 2, the operators 1; (7c) SEEDED: 55% random values as in (2), 20% whitespace-only-'
        'continuation values, 25% fixed ones, same weights.  Outcomes: raised -> counted (the operators are not offered by '
        'the present tree: TypeError, nothing demanded beyond an unchanged paragraph), paragraph unchanged; no exception -> held '
        'values judged by the model, names, re-read: str through cls.iter_paragraphs always, bytes through the class or str '
        'through Deb822 alternating, + LF-only and constructor forms as in (5) (blank continuation: 5 more pairs; CR: 1..3; '
        'half of the rest: 1; a --replay: all).  NON-TRIVIAL: the string contains a line boundary; distinct = distinct '
        '(route, source type, class, string).')
ASSUMPTIONS = [
    'vp.models.deb822value (30 lines) states the three defects of the property: value ends in LF; a line after the '
    'first is empty; a line after the first does not start with space/tab.  Lines are split on LF, CR LF, CR; a '
    'terminator at the very end opens no further line.',
    'Domain as quantified: printable text, colon, hash, space, tab, CR, LF.  Exotic Unicode/ASCII line boundaries and '
    'whitespace (NBSP, VT, FF, FS/GS/RS, U+0085, U+2028...) are not generated.',
    'Field names of the paragraphs are ordinary (letters, digits, hyphen) and disjoint from every name a generated '
    'value could inject; names themselves are not under test (validate_input documents that keys are not validated).',
    'Re-read = Deb822.iter_paragraphs on the dump as str and as UTF-8 bytes (internal parser; python-apt is absent). '
    'The default parser setting is only consulted when no continuation line of the value is blank, as stated.',
    'LF-only re-read forms: "reading it back" is taken to include reading the dump from a file or any other source '
    'that hands the parser lines cut at LF only (documented input kinds of Deb822/iter_paragraphs: file-like objects '
    'and sequences of lines, str or bytes).  CR is in the quantified domain, so an accepted value containing CR must '
    'give one paragraph with the same field names there too.  Guards: (a) only the paragraph count and the field '
    'names are compared - a value that re-reads with different content (CR kept inside a line, blanks trimmed, a '
    'whitespace-only line dropped) is not a violation; (b) what follows the final LF of the dump is not handed over '
    "as a further (empty) line, as when a file is read back; (c) the 'blank continuation line' guard of the default "
    'setting uses the model lines (cut at LF, CR LF, CR): an LF-cut line can be whitespace-only only if one of the '
    'model lines it is made of is blank, so no further guard is needed; (d) the Deb822(...) constructor reads one '
    'paragraph: its field names must be those of the paragraph, and - only when the source is an iterator or file, '
    'where the question is defined - a second constructor call on the same source must come back empty; (e) files are '
    'written by dump(fd) (binary: the paragraph\'s own utf-8 encoding; text: text_mode=True on a utf-8 file opened '
    'with newline=LF so that neither direction translates), flushed and rewound on the same handle.',
    'The text file re-opened with the default universal-newline translation turns CR and CR LF into LF before the '
    'parser sees them; that is the line model of the property (every continuation line of an accepted value is '
    'indented and non-empty), so one paragraph with the same names is demanded there too; it is counted in M.reread '
    'but not in M.reread-lf.',
    'No must-accept demand: values without a stated defect that the library rejects are counted, never reported.',
    'PARSE SIDE.  The statement guarantees that a value the paragraph holds can never inject fields, and that values '
    'which would are rejected; a value obtained by parsing is held by the paragraph like an assigned one, so (a) it must '
    'carry none of the three stated defects per the same model and (b) the paragraph must keep re-reading as one '
    'paragraph with the same field names after further accepted assignments.  Guards: (i) if the parser raises ANY '
    'exception (the present tree: ValueError from the validator) nothing is demanded, and paragraphs an iterator yielded '
    'before raising are not judged; (ii) what a parse must GIVE is not stated - the field names and values the parser '
    'produced are never compared with the input (a line it drops, a CR it eats as blank space after the colon, a CR it '
    'treats as a line boundary are all fine); (iii) only str values are judged; (iv) the history and the re-read run only '
    "on paragraphs whose every field name is ordinary (^[A-Za-z0-9][A-Za-z0-9-]*$): a CR trick can make the parser read a "
    "name such as '#' or '-', and names are outside the property; (v) the re-read is demanded only after at least one "
    'accepted assignment, compares the names list(d) holds at that moment, and consults the default parser setting only '
    'when no continuation line of ANY value of the paragraph is blank (model lines); (vi) setdefault on a present '
    'field assigns nothing and is executed as an item assignment; (vii) documents use only characters of the '
    'quantified domain, and injected look-alike names are disjoint from the ordinary names of documents and assignment '
    'targets; (viii) at most the first three paragraphs of a document are judged; (ix) for cost, an ENUMERATED document '
    'whose paragraph holds no CR in any value goes through the history and re-read for every 4th document only (a '
    '--replay always runs it, with all 18 (form, API) re-read pairs).',
    'Deb822(dict) with a defective value: any exception counts as a rejection on that route (the statement speaks of '
    'assignment to a field of an existing paragraph); the exception types seen are recorded in coverage.ctor_reject_types.',
    'SUBCLASS LAYER.  Dsc, Changes, BuildInfo, Sources, Packages, Release, PdiffIndex are Deb822 paragraphs; the statement '
    'is taken to hold for every field of them that the class treats as TEXT.  Guards: (i) a (class, name) pair is judged '
    'only if the name is multivalued in that class neither per the reference table MV_MODEL (the documented '
    '_multivalued_fields of the seven classes) nor per the declaration the class itself carries when the shard starts '
    '(snapshot before any workload; recorded in coverage.multivalued_declared_at_start, differences from the table in '
    'coverage.multivalued_declaration_differs_from_reference_table) - what a class comes to treat as multivalued LATER, '
    'because of what other classes or objects did, is not part of the domain and is exactly what the histories look for; '
    '(ii) nothing is demanded of a prime step: a class may accept or refuse records or strings under its multivalued '
    'names, fail to dump them, fail to copy() (the present tree cannot copy() a paragraph holding record lists) - every '
    'exception is only counted (sub:prime-raised:*); (iii) a judged paragraph that the class cannot build or dump BEFORE '
    'the judged assignment (ordinary values and well-formed records only) is skipped and counted (sub:build-raised:*); '
    'a paragraph with a record-list neighbour is never constructed from a mapping and never copied (the classes cannot '
    'do that today), it is built by assignment and assigned to by item assignment; (iv) cls(dict) with the judged value: '
    'any exception counts as rejection, as on the plain route; copy() raising anything is no demand; (v) no must-accept '
    'demand: a value without stated defect that a class rejects (after whatever history) is only counted; (vi) the '
    're-read compares the paragraph count and field NAMES only, through the class of the paragraph (the records of its '
    'own multivalued fields are re-parsed by it) and once through plain Deb822; the default setting (strict=None) is '
    'consulted only when NO str value of the paragraph has a blank continuation line - also for Sources / Packages, whose '
    'iter_paragraphs documents whitespace-separates-paragraphs=False as its default (no demand is built on that '
    'default); (vii) the constructor on a plain list reads one paragraph: only its names are compared; (viii) python-apt '
    'is absent, so Sources/Packages.iter_paragraphs run the internal parser (their request for apt_pkg only warns; the '
    'warning is filtered); (ix) witnesses: the library may keep state between classes, so a violating step is re-executed '
    'in a fresh interpreter - alone, with the earlier steps of its case, with the last 60 steps of the process as '
    'prelude (run unjudged on replay) - at most 6 confirmations per shard; the mechanism key gets the suffix '
    '/depends-on-what-other-classes-or-objects-did-before when the step alone passes there.  Cases of the older kinds run '
    'AFTER the subclass layer in the same process: on a tree that leaks state across classes their witnesses may not '
    'reproduce standalone (the confirmed subclass-layer witnesses do).',
    'STRINGS UNDER MULTIVALUED NAMES.  The statement\'s re-read discipline is applied to whatever the subclass layer is '
    'willing to WRITE: if a string was assigned to a field (multivalued in that class or not) without an exception and '
    'dump() returns text, that text must re-read as one paragraph with the names of the paragraph.  This is demanded of '
    'every field alike, so no domain guard on the name is needed (names come from the reference table, from the '
    "class's own declaration at start, and Package-List).  Guards, all on the under-demanding side: (i) an exception of "
    'ANY type at the assignment (item assignment, update, setdefault, cls(dict)) or at dump() is the library\'s choice - '
    'counted per type (mvs:assign-raised:* / mvs:dump-raised:*), never reported; the present tree accepts every string '
    'under a multivalued name, its formatter then raises TypeError (string kept as such) / KeyError (string turned into '
    'incomplete records by cls(dict) or copy()) / ValueError, and writes text only for strings the constructor could '
    'turn into complete records (and for the empty string); (ii) after a refused item assignment / update / setdefault '
    'list() and dump() must be what they were (dump() worked before the assignment) - the exception type is not judged '
    'here; (iii) no must-reject demand: a string with a stated defect may be accepted and written, as long as what is '
    'written re-reads correctly (the constructor normalises such strings into records); (iv) the names compared are the '
    'names list(d) holds after the assignments; a held name that was never assigned is reported, an assigned name the '
    'paragraph does not hold is only counted; (v) the default parser setting is consulted only when neither the '
    'assigned string nor any text value the paragraph holds has a blank continuation line (model lines); (vi) a '
    'paragraph that cannot be built or dumped BEFORE the string is assigned (ordinary values, well-formed records) is '
    'skipped and counted; record neighbours travel as well-formed record text on the cls(dict) route; copy() raising is no '
    'demand; (vii) a re-read that raises counts as "does not give one paragraph" (as everywhere in this module); '
    '(viii) the floors of this class are on ATTEMPTS (cases, routes, classes, pairs, shapes, enumeration lengths); how '
    'many attempts end in text is the library\'s choice - conclusive() only checks that every attempt was classified and '
    'that every text outcome was re-read at least through the class and through Deb822; (ix) when dump() raises, the '
    'other way of writing the paragraph out - dump(fd, text_mode=True) into a StringIO - is tried once: if it completes, the '
    'text it wrote is judged the same way (str / bytes forms only), if it raises too nothing is demanded.',
    'MAPPING OBJECTS AS THE SOURCE.  update(), the constructor from a mapping and (where a class offers them) |= and | are '
    'taken to be ways of "assigning a value to a field of a paragraph": each carried pair is an assignment, and whether it is '
    'accepted must not depend on the type of the object that carries it.  Guards, all on the under-demanding side: (i) '
    'domain - every name involved is an ordinary text field of the TARGET class per the reference table and per the '
    "class's declaration at start (otherwise skipped and counted); a name carried by a Dsc / Changes / ... source must be "
    'multivalued in THAT class per both; source objects are built without going through the validator of the target and '
    'are never judged themselves (a source the library cannot build is skipped and counted: via:outcome:build-raised); (ii) '
    'an exception of any type is a refusal; ValueError is demanded only on the in-place routes and only for the source types '
    'the library certainly supports - dict, OrderedDict, its own Deb822Dict / Deb822 / subclass objects; for MappingProxyType, '
    'UserDict, ChainMap, keys()-only objects and iterables of pairs the type is not judged, and on cls(other) any exception '
    'counts (types recorded in coverage.ctor_reject_types; the present tree: TypeError out of the constructor\'s own error '
    'handler); (iii) p |= other and p | other: the present tree offers neither (TypeError) - when the class dictionaries '
    'along the MRO hold no __or__ / __ior__, a TypeError is counted as operator-not-supported and only "the paragraph is '
    'unchanged" is demanded; a result that is not a Deb822 (ChainMap.__ror__ answers p | ChainMap(...) with a ChainMap) is not '
    'a paragraph and not judged - only the left operand, if it changed; a tree that offers the operators is judged like '
    'update (in place) / like the constructor (new object; the left operand is judged too if it changed); (iv) after a '
    'refusal the paragraph must be unchanged (list() and dump()) when the source carried ONE pair; when several pairs '
    'travelled together update() is not promised to be atomic (the present tree assigns the pairs in front of the refused '
    'one), so only this is demanded: the field the refused value was meant for is as it was, no name appeared that was '
    'not carried, and what the paragraph now holds is judged like an accepted assignment (model, re-read in the str / bytes '
    'forms); (v) no exception: EVERY str value the paragraph then holds must be free of the stated defects per the model '
    '(so a library that silently drops or repairs a defective value is not accused; counted as via:no-exception-but-value-'
    'not-stored-as-given), names held must have been assigned, and the re-read compares paragraph count and names only; the '
    'default parser setting is consulted only when no held value has a blank continuation line; (vi) no must-accept demand: '
    'a refusal of a value without stated defect is only counted; (vii) Deb822(_parsed=...) and Deb822Dict.__setitem__ are used '
    'only to MAKE source objects that hold an unvalidated string - what such objects do themselves is not judged; (viii) '
    'floors are on attempts per (route, source type, class), on refusals and on stored multi-line values - how the operators '
    'end is the library\'s choice; conclusive() checks that every attempt was classified and every stored value re-read.',
]
ANCHORS = ['debian.deb822:Deb822.validate_input',
           'debian.deb822:Deb822.__setitem__',
           'debian.deb822:Deb822._dump_format',
           'debian.deb822:Deb822._internal_parser',
           'debian.deb822:Deb822.split_gpg_and_payload',
           'debian.deb822:Deb822._skip_useless_lines',
           'debian.deb822:Deb822.iter_paragraphs']
MUST_REACH = ['debian.deb822:Deb822.validate_input', 'debian.deb822:Deb822.__setitem__',
              'debian.deb822:Deb822._dump_format', 'debian.deb822:Deb822._internal_parser',
              'debian.deb822:Deb822.iter_paragraphs']

# ~50% of what a run on the current tree measures; the enumeration counters are deterministic and must be complete.
# The form:* / api:* / lf:* counters and M.reread-lf belong to the LF-only re-read class: a run that never exercises it
# (or never gets an accepted CR value into it) is INCONCLUSIVE, not held.  The parse:* / penum-len:* counters and
# M.parse / M.parsed-value / M.reread-parsed belong to the parse-side class, likewise.  No floor on parse:raised /
# parse:hot-raised: whether the parser refuses a hot document is the library's choice.
FLOORS = {'quick': {'nontrivial': 58000,
                    'monitors': {'M.reread': 450000, 'M.reread-lf': 80000, 'M.must-reject': 100000, 'M.unchanged': 91000,
                                 'K.setitem-raise': 93000,
                                 'M.parse': 14000, 'M.parsed-value': 34000, 'M.reread-parsed': 25000},
                    'counters': {'enum-len:5': 100000, 'enum-len:4': 10000, 'accepted-multiline': 30000,
                                 'copy-checked': 1300, 'route:update': 1700, 'route:ctor': 1600,
                                 'route:setdefault': 600,
                                 'form:stringio': 12000, 'form:lines-nl': 11500, 'form:lines-bare': 16000,
                                 'form:bytesio': 16000, 'form:textfile': 11500, 'form:binfile': 11500,
                                 'form:textfile-universal': 3700, 'api:Deb822()': 18000,
                                 'lf:cr-value': 17000, 'lf:cr-value-4-forms': 5400, 'lf:cr-after-colon-blanks': 3700,
                                 'lf:cr-at-line-end': 10000, 'lf:cr-mid-line': 6500,
                                 # parse-side class (enumeration counters are deterministic and must be complete)
                                 'penum-len:4': 19683, 'penum-len:3': 3645, 'parse:history-case': 2500,
                                 'parse:lone-cr': 6700, 'parse:hot': 5200, 'parse:hot:list': 3000,
                                 'parse:hot:stream': 2200, 'parse:crlf-inside-list-element': 1900,
                                 'parse:accepted': 12000, 'parse:accepted-cr-value': 500,
                                 'parse:history-reread': 6000, 'parse:history-reread-multi-op': 4400,
                                 'parse:op-accepted': 11500, 'parse:op-rejected': 1700,
                                 'parse:api:iter': 10500, 'parse:api:ctor': 3500,
                                 'parse:form:lines-bare': 2200, 'parse:form:lines-nl': 2200,
                                 'parse:form:lines-bytes': 1200, 'parse:form:lines-bytes-nl': 1200,
                                 'parse:form:lines-gen': 1200, 'parse:form:stringio': 1200,
                                 'parse:form:bytesio': 2200, 'parse:form:textfile': 1200,
                                 'parse:form:binfile': 1200, 'parse:form:str': 50, 'parse:form:bytes': 50}},
          'thorough': {'nontrivial': 2800000,     # recording cap is 400000 per shard x 14
                       'monitors': {'M.reread': 14900000, 'M.reread-lf': 1750000, 'M.must-reject': 3500000,
                                    'M.unchanged': 5300000, 'K.setitem-raise': 5500000,
                                    'M.parse': 510000, 'M.parsed-value': 1100000, 'M.reread-parsed': 890000},
                       'counters': {'enum-len:7': 10000000, 'enum-len:6': 1000000, 'enum-len:5': 100000,
                                    'accepted-multiline': 1300000, 'copy-checked': 49000, 'route:update': 64000,
                                    'route:ctor': 64000, 'route:setdefault': 22000,
                                    'form:stringio': 270000, 'form:lines-nl': 270000, 'form:lines-bare': 320000,
                                    'form:bytesio': 320000, 'form:textfile': 270000, 'form:binfile': 290000,
                                    'form:textfile-universal': 83000, 'api:Deb822()': 560000,
                                    'lf:cr-value': 640000, 'lf:cr-value-4-forms': 64000,
                                    'lf:cr-after-colon-blanks': 125000, 'lf:cr-at-line-end': 350000,
                                    'lf:cr-mid-line': 290000,
                                    # parse-side class
                                    'penum-len:6': 531441, 'penum-len:5': 295245, 'penum-len:4': 32805,
                                    'parse:history-case': 79000, 'parse:lone-cr': 320000, 'parse:hot': 250000,
                                    'parse:hot:list': 140000, 'parse:hot:stream': 100000,
                                    'parse:crlf-inside-list-element': 100000, 'parse:accepted': 410000,
                                    'parse:accepted-cr-value': 28000, 'parse:history-reread': 200000,
                                    'parse:history-reread-multi-op': 150000, 'parse:op-accepted': 390000,
                                    'parse:op-rejected': 59000, 'parse:api:iter': 380000, 'parse:api:ctor': 120000,
                                    'parse:form:lines-bare': 80000, 'parse:form:lines-nl': 80000,
                                    'parse:form:lines-bytes': 44000, 'parse:form:lines-bytes-nl': 44000,
                                    'parse:form:lines-gen': 44000, 'parse:form:stringio': 44000,
                                    'parse:form:bytesio': 80000, 'parse:form:textfile': 44000,
                                    'parse:form:binfile': 44000, 'parse:form:str': 1900, 'parse:form:bytes': 2000}}}

# SUBCLASS LAYER floors (same rule: ~50% of the minimum measured over seeds 0-3 quick / seed 0 thorough; the enumeration
# counters are deterministic and must be complete).  A run that never drives the subclasses, never gets a name primed in
# one class and judged in another, or never re-reads a whitespace-only continuation through the subclass entry points
# is INCONCLUSIVE.  No floors on sub:prime-raised:* / sub:rejected* (the library's choice).
_SUB_CLASSES = ['Dsc', 'Changes', 'BuildInfo', 'Sources', 'Packages', 'Release', 'PdiffIndex', 'Deb822']
_SUB_PRIME_CLASSES = ['Dsc', 'Changes', 'BuildInfo', 'Sources', 'Release', 'PdiffIndex']
_SUB_PRIME_HOWS = ['parse:lines', 'setitem:recs', 'setitem:string', 'dict:recs', 'dict:string', 'update:string']
_SUB_FLOORS = {
    'quick': {'monitors': {'M.cross-class': 2500, 'M.reread-sub': 13000, 'M.sub.must-reject': 1800},
              'counters': {'sub:case:enum': 798, 'sub:case:ws-enum': 320, 'sub:case:field-enum': 93, 'sub:case:hist': 700,
                           'sub:judge': 3300, 'sub:prime': 950, 'sub:cross-class-history': 740,
                           'sub:cross-class-history:judge-first': 350, 'sub:cross-class-history:prime-first': 380,
                           'sub:hostile-after-prime-of-name': 1250, 'sub:judge-after-prime-in-same-case': 1550,
                           'sub:judge-before-any-prime-of-name': 80, 'sub:judge-same-string-as-prime': 250,
                           'sub:judge:name-multivalued-in-another-class': 2650,
                           'sub:judge-with-own-multivalued-neighbour': 780, 'sub:ws-only-continuation-followed': 600,
                           'sub:route:copy': 330, 'sub:route:ctor': 370, 'sub:route:setdefault': 135,
                           'sub:route:update': 490, 'sub:build:parse': 720, 'sub:build:parse-stream': 620,
                           'sub:build:dict': 470, 'sub:copy-checked': 180,
                           'sub:ws-reread-form:str': 1000, 'sub:ws-reread-form:bytes': 540,
                           'sub:ws-reread-form:stringio': 430, 'sub:ws-reread-form:bytesio': 330,
                           'sub:ws-reread-form:lines-nl': 410, 'sub:ws-reread-form:lines-bare': 470,
                           'sub:ws-reread-form:lines-nl-seq': 125, 'sub:ws-reread-form:lines-bare-seq': 155,
                           'sub:ws-reread-form:textfile': 460, 'sub:ws-reread-form:binfile': 360},
              'per-class': {'sub:judge:%s': 310, 'sub:accepted:%s': 180, 'sub:ws-only-continuation-followed:%s': 55,
                            'sub:ws-reread:%s:iter': 260, 'sub:ws-reread:%s:ctor': 145,
                            'sub:reread-explicit-strict:%s:iter': 640, 'sub:reread-explicit-strict:%s:ctor': 280},
              'per-prime-class': {'sub:prime-cls:%s': 95}, 'per-how': {'sub:prime:%s': 145}},
    'thorough': {'monitors': {'M.cross-class': 70000, 'M.reread-sub': 560000, 'M.sub.must-reject': 75000},
                 'counters': {'sub:case:enum': 1596, 'sub:case:ws-enum': 480, 'sub:case:field-enum': 93,
                              'sub:case:hist': 39000, 'sub:judge': 99000, 'sub:prime': 34000,
                              'sub:cross-class-history': 20000, 'sub:cross-class-history:judge-first': 9800,
                              'sub:cross-class-history:prime-first': 10000, 'sub:hostile-after-prime-of-name': 17000,
                              'sub:judge-after-prime-in-same-case': 23000, 'sub:judge-before-any-prime-of-name': 310,
                              'sub:judge-same-string-as-prime': 3200,
                              'sub:judge:name-multivalued-in-another-class': 70000,
                              'sub:judge-with-own-multivalued-neighbour': 23000,
                              'sub:ws-only-continuation-followed': 21000, 'sub:route:copy': 10000,
                              'sub:route:ctor': 10000, 'sub:route:setdefault': 4700, 'sub:route:update': 14000,
                              'sub:build:parse': 19000, 'sub:build:parse-stream': 19000, 'sub:build:dict': 15000,
                              'sub:copy-checked': 8100, 'sub:ws-reread-form:str': 35000,
                              'sub:ws-reread-form:bytes': 17000, 'sub:ws-reread-form:stringio': 15000,
                              'sub:ws-reread-form:bytesio': 14000, 'sub:ws-reread-form:lines-nl': 15000,
                              'sub:ws-reread-form:lines-bare': 15000, 'sub:ws-reread-form:lines-nl-seq': 4500,
                              'sub:ws-reread-form:lines-bare-seq': 4500, 'sub:ws-reread-form:textfile': 15000,
                              'sub:ws-reread-form:binfile': 15000},
                 'per-class': {'sub:judge:%s': 10000, 'sub:accepted:%s': 8100,
                               'sub:ws-only-continuation-followed:%s': 2300, 'sub:ws-reread:%s:iter': 10000,
                               'sub:ws-reread:%s:ctor': 4700, 'sub:reread-explicit-strict:%s:iter': 30000,
                               'sub:reread-explicit-strict:%s:ctor': 11000},
                 'per-prime-class': {'sub:prime-cls:%s': 3000}, 'per-how': {'sub:prime:%s': 5500}},
}
for _tier, _f in _SUB_FLOORS.items():
    FLOORS[_tier]['monitors'].update(_f['monitors'])
    FLOORS[_tier]['counters'].update(_f['counters'])
    for _pat, _n in _f['per-class'].items():
        FLOORS[_tier]['counters'].update((_pat % _c, _n) for _c in _SUB_CLASSES)
    for _pat, _n in _f['per-prime-class'].items():
        FLOORS[_tier]['counters'].update((_pat % _c, _n) for _c in _SUB_PRIME_CLASSES)
    for _pat, _n in _f['per-how'].items():
        FLOORS[_tier]['counters'].update((_pat % _h, _n) for _h in _SUB_PRIME_HOWS)

# STRINGS UNDER MULTIVALUED NAMES: floors on ATTEMPTS only (~50% of the minimum over seeds 0-3 quick / seed 0 thorough;
# enumeration counters are deterministic and must be complete).  How an attempt ends - refused at assignment, refused at
# dump(), text written - is the library's choice: no floors on mvs:outcome:* / mvs:dump-* / mvs:assign-raised:* /
# M.mvstr / M.reread-mvstr (conclusive() checks that every attempt was classified and every text outcome re-read).
_MVS_PAIRS = ([(c, x) for c in _SUB_PRIME_CLASSES for x in sorted(
    {'Dsc': ['files', 'checksums-sha1', 'checksums-sha256', 'checksums-sha512'],
     'Changes': ['files', 'checksums-sha1', 'checksums-sha256', 'checksums-sha512'],
     'Sources': ['files', 'checksums-sha1', 'checksums-sha256', 'checksums-sha512'],
     'BuildInfo': ['checksums-md5', 'checksums-sha1', 'checksums-sha256', 'checksums-sha512'],
     'Release': ['md5sum', 'sha1', 'sha256', 'sha512'],
     'PdiffIndex': [p_ + h_ + '-' + k_ for p_ in ('', 'x-unmerged-') for h_ in ('sha1', 'sha256')
                    for k_ in ('history', 'patches', 'download')] + ['sha1-current', 'sha256-current']}[c])]
              + [('Dsc', 'package-list'), ('Sources', 'package-list')])
_MVS_SHAPE_GROUPS = ['blank', 'blank-only-end', 'blank-only-first', 'blank-only-inside', 'comment-line', 'cr-inside-token',
                     'empty', 'empty-line-first', 'empty-line-inside', 'indented-lookalike', 'lf', 'long-record',
                     'nl-records', 'nl-single', 'pgp-line', 'records', 'short-record', 'single', 'tabs', 'unindented',
                     'word']
_MVS_FLOORS = {
    'quick': {'counters': {'mvs:case': 8757, 'sub:case:mvs-enum': 3102, 'sub:case:mvs-tokens': 4055,
                           'sub:case:mvs-hist': 800, 'mvs:enum-len:3': 3500, 'mvs:enum-len:2': 500, 'mvs:enum-len:1': 50,
                           'mvs:object': 5700, 'mvs:prime-step-judged': 800, 'mvs:name:declared-multivalued': 4100,
                           'mvs:route:setitem': 1200, 'mvs:route:update': 870, 'mvs:route:setdefault': 520,
                           'mvs:route:ctor': 870, 'mvs:route:copy': 860,
                           'mvs:cls:Dsc': 600, 'mvs:cls:Changes': 510, 'mvs:cls:BuildInfo': 540, 'mvs:cls:Sources': 650,
                           'mvs:cls:Release': 540, 'mvs:cls:PdiffIndex': 1450,
                           'mvs:layout:new': 1800, 'mvs:layout:new:first': 860, 'mvs:layout:replace-records': 850,
                           'mvs:layout:replace-records:first': 810,
                           'mvs:build:assign': 1390, 'mvs:build:parse': 690, 'mvs:build:parse-stream': 680,
                           'mvs:value:trailing-newline': 460, 'mvs:value:empty-line': 400,
                           'mvs:value:continuation-not-indented': 1290, 'mvs:value:no-stated-defect': 2350,
                           'mvs:value:blank-continuation': 1050, 'mvs:value:cr': 1290},
              'per-pair': 75, 'per-shape-group': 33, 'per-shape-route': 6},
    'thorough': {'counters': {'mvs:case': 267475, 'sub:case:mvs-enum': 16920, 'sub:case:mvs-tokens': 180555,
                              'sub:case:mvs-hist': 70000, 'mvs:enum-len:5': 125000, 'mvs:enum-len:4': 50000,
                              'mvs:enum-len:3': 5000, 'mvs:enum-len:2': 500,
                              'mvs:object': 179000, 'mvs:prime-step-judged': 28000,
                              'mvs:name:declared-multivalued': 126000,
                              'mvs:route:setitem': 37000, 'mvs:route:update': 26500, 'mvs:route:setdefault': 16000,
                              'mvs:route:ctor': 26500, 'mvs:route:copy': 26500,
                              'mvs:cls:Dsc': 18500, 'mvs:cls:Changes': 15500, 'mvs:cls:BuildInfo': 16000,
                              'mvs:cls:Sources': 19000, 'mvs:cls:Release': 15500, 'mvs:cls:PdiffIndex': 48000,
                              'mvs:layout:new': 56000, 'mvs:layout:new:first': 26500, 'mvs:layout:replace-records': 25000,
                              'mvs:layout:replace-records:first': 25000,
                              'mvs:build:assign': 42000, 'mvs:build:parse': 21500, 'mvs:build:parse-stream': 21000,
                              'mvs:value:trailing-newline': 9600, 'mvs:value:empty-line': 15000,
                              'mvs:value:continuation-not-indented': 57000, 'mvs:value:no-stated-defect': 62000,
                              'mvs:value:blank-continuation': 35000, 'mvs:value:cr': 53000},
                 'per-pair': 3300, 'per-shape-group': 180, 'per-shape-route': 36},
}
for _tier, _f in _MVS_FLOORS.items():
    FLOORS[_tier]['counters'].update(_f['counters'])
    if _f['per-pair']:
        FLOORS[_tier]['counters'].update(('mvs:pair:%s:%s' % _p, _f['per-pair']) for _p in _MVS_PAIRS)
        FLOORS[_tier]['counters'].update(('mvs:shape:' + _g, _f['per-shape-group']) for _g in _MVS_SHAPE_GROUPS)

WS_FALSE = {'whitespace-separates-paragraphs': False}

# ---------------------------------------------------------------------------
# paragraph layouts: (fields before assignment, target name).  Names contain none
# of the characters the enumeration alphabet can put into an injected name.

ENUM_LAYOUTS = [
    {'fields': [['Pkg', 'p1'], ['Fld', 'old'], ['Zed', 'z9']], 'target': 'Fld'},          # middle, replace
    {'fields': [], 'target': 'Fld'},                                                       # sole, new
    {'fields': [['Fld', 'old'], ['Zed', 'z9']], 'target': 'Fld'},                          # first, replace
    {'fields': [['Pkg', 'p1'], ['Ver', '1.0-1'], ['Zed', 'z9']], 'target': 'Fld'},         # last, new (4 fields)
    {'fields': [['Pkg', 'p1'], ['Fld', 'old']], 'target': 'Fld'},                          # last, replace
    {'fields': [['Pkg', 'p1\n p2'], ['Fld', 'old'], ['Zed', '\n z8\n z9']], 'target': 'Fld'},  # multi-line neighbours
    {'fields': [['Fld', 'old']], 'target': 'Fld'},                                         # sole, replace
    {'fields': [['Pkg', 'p1'], ['fld', 'old'], ['Zed', 'z9'], ['Ver', '2']], 'target': 'FLD'},  # other spelling of the name
]

NAME_POOL = ['Package', 'Version', 'Depends', 'Description', 'Homepage', 'Section', 'Maintainer', 'X-Test-Field']
NEIGHBOUR_VALUES = ['v%d', 'some text %d', '%d.0-1', '\n line %d\n more', 'first %d\n second\n .\n third', '']
INJECT = ['B: x', 'Inj: y', 'Xtra:', 'Q :z', 'K:v', 'inj-2:  spaced', 'B:\tx']
SPECIAL_LINES = ['#comment', '# Inj: y', '-----BEGIN PGP SIGNED MESSAGE-----', '-----BEGIN PGP SIGNATURE-----',
                 '-----END PGP SIGNATURE-----', '.', ':', ': x', '::', '-', 'Hash: SHA256']
BLANKS = ['', ' ', '\t', '  ', ' \t ']
PRINTABLE = ''.join(chr(c) for c in range(0x21, 0x7f)) + '      ' + u'\xe9\xdf\u5b57'
BOUNDARIES = ['\n', '\n', '\n', '\r\n', '\r']
CR_BOUNDARIES = ['\r', '\r', '\r\n', '\r\n', '\n']
ROUTES = ['setitem', 'setitem', 'setitem', 'update', 'setdefault', 'ctor', 'copy']


def rand_line(r):
    k = r.random()
    if k < 0.30:
        return r.choice(INJECT)
    if k < 0.45:
        return r.choice(SPECIAL_LINES)
    if k < 0.55:
        return r.choice(BLANKS)
    if k < 0.65:
        return r.choice(INJECT) + ' ' + ''.join(r.choice(PRINTABLE) for _ in range(r.randint(0, 6)))
    return ''.join(r.choice(PRINTABLE) for _ in range(r.randint(1, 12)))


def rand_value(r):
    n = r.choice([1, 2, 2, 3, 3, 4, 5, 7])
    style = r.random()
    # indentation discipline of this value: mostly well-formed (so that many long values are ACCEPTED and the
    # re-read monitor is exercised), sometimes sloppy (rejections), sometimes none
    p_indent = 1.0 if style < 0.55 else (0.85 if style < 0.85 else 0.3)
    # CR-centred values (1 in 6): the boundaries are mostly bare CR / CR LF, the first line is often blank (so that the
    # dump reads 'Field: <blanks> CR ...') and the value often ends in CR - the shapes that read differently when the
    # dump is cut into lines at LF only
    cr_focus = r.random() < 1 / 6.0
    bounds = CR_BOUNDARIES if cr_focus else BOUNDARIES
    if cr_focus:
        n = max(n, 2)
        out = [r.choice(BLANKS) if r.random() < 0.6 else rand_line(r)]
    else:
        out = [rand_line(r) if r.random() < 0.85 else '']
    for _ in range(n - 1):
        line = rand_line(r)
        if r.random() < p_indent:
            line = r.choice([' ', ' ', '\t', '  ', ' \t']) + line
        out.append(r.choice(bounds))
        out.append(line)
    k = r.random()
    if k < 0.06:
        out.append(r.choice(['\n', '\r', '\r\n', '\n\n']))
    elif cr_focus and k < 0.36:
        out.append('\r')
    return ''.join(out)


def rand_case(r):
    nf = r.choice([1, 2, 3, 3, 4, 4])
    names = r.sample(NAME_POOL, nf)
    new = r.random() < 0.35
    if new:
        nf -= 1
    fields = []
    for i in range(nf):
        val = r.choice(NEIGHBOUR_VALUES)
        fields.append([names[i], val % i if '%d' in val else val])
    if new:
        target = names[-1]
    else:
        target = r.choice(fields)[0]
        if r.random() < 0.2:
            target = r.choice([target.lower(), target.upper()])
    route = r.choice(ROUTES)
    if route == 'setdefault' and not new:
        route = 'setitem'
    return {'kind': 'one', 'fields': fields, 'target': target, 'v': rand_value(r), 'route': route}



# ---------------------------------------------------------------------------
# re-read forms.  'str' and 'bytes' are cut into lines by the library with splitlines() (a CR is a line boundary
# there); the LF_FORMS hand the parser lines cut at LF ONLY, as when the dump went through a file.

MEM_LF_FORMS = ['stringio', 'bytesio', 'lines-nl', 'lines-bare']
DISK_LF_FORMS = ['textfile', 'binfile']
LF_FORMS = MEM_LF_FORMS + DISK_LF_FORMS
ALL_FORMS = ['str', 'bytes'] + LF_FORMS
UNIVERSAL = 'textfile-universal'      # the text file re-opened with Python's default newline translation (CR -> LF)
FILE_FORMS = ('textfile', 'binfile', UNIVERSAL)
# iter_paragraphs weighs double on the LF-only forms: on an iterator the constructor is the loop body of iter_paragraphs
ONE_COMBOS = ([(f, 'iter') for f in LF_FORMS] * 2 + [(f, 'ctor') for f in ALL_FORMS] + [(UNIVERSAL, 'iter')])
ALL_COMBOS = ([(f, 'iter') for f in LF_FORMS] + [(f, 'ctor') for f in ALL_FORMS]
              + [(UNIVERSAL, 'iter'), (UNIVERSAL, 'ctor')])
CR_MID = re.compile(r'[^ \t\r\n][ \t]*\r(?!\n)[ \t]')
# SUBCLASS LAYER only: the plain list of lines handed to cls(lines, strict=...) (not an iterator: one paragraph is read)
SEQ_FORMS = ('lines-nl-seq', 'lines-bare-seq')
SUB_ALL = ([(f, 'iter') for f in ALL_FORMS] + [(f, 'ctor') for f in ALL_FORMS] + [(f, 'ctor') for f in SEQ_FORMS]
           + [(UNIVERSAL, 'iter')])


def plan(depth, sel):
    """Extra (form, api) pairs beyond the always-run str/bytes x iter_paragraphs; a function of the case only."""
    if depth == 'all':
        return ALL_COMBOS
    if depth == 'full':
        # str lines with terminators from one of two equivalent sources, str lines without terminators, bytes lines,
        # one of the two files; for 1 in 4 also one constructor re-read / the translated text file
        out = [(('stringio', 'lines-nl')[(sel >> 6) & 1], 'iter'), ('lines-bare', 'iter'), ('bytesio', 'iter'),
               (DISK_LF_FORMS[sel & 1], 'iter')]
        if sel & 6 == 0:
            out.append((ALL_FORMS[(sel >> 3) % len(ALL_FORMS)], 'ctor'))
        if sel & 48 == 0:
            out.append((UNIVERSAL, 'iter'))
        return out
    if depth == 'some':            # two of the LF-only forms + one constructor re-read
        i = sel % len(LF_FORMS)
        return [(LF_FORMS[i], 'iter'), (LF_FORMS[(i + 1 + (sel >> 4) % 5) % len(LF_FORMS)], 'iter'),
                (ALL_FORMS[(sel >> 8) % len(ALL_FORMS)], 'ctor')]
    if depth == 'one':
        return [ONE_COMBOS[sel % len(ONE_COMBOS)]]
    return ()


_FILES = {}


def scratch_files(ctx):
    """Two scratch files per shard, created once and rewritten in place."""
    if not _FILES:
        d = ctx.tmpdir()
        _FILES['tpath'] = os.path.join(d, 'dump.txt')
        _FILES['t'] = open(_FILES['tpath'], 'w+', encoding='utf-8', newline='\n')   # no translation either way
        _FILES['b'] = open(os.path.join(d, 'dump.bin'), 'w+b')
    return _FILES


class Sources(object):
    """The dump of one paragraph in every re-read form (fresh source object per re-read)."""

    def __init__(self, ctx, d, text):
        self.ctx, self.d, self.text = ctx, d, text
        self._bytes = self._lines = self._nl = None
        self._written = set()

    def lines(self):
        if self._lines is None:
            parts = self.text.split('\n')
            if parts and parts[-1] == '':
                parts.pop()              # what follows the final LF is not a line (as when a file is read back)
            self._lines = parts
            self._nl = [l + '\n' for l in parts]
        return self._lines

    def _file(self, which):
        fs = scratch_files(self.ctx)
        f = fs[which]
        if which not in self._written:
            f.seek(0)
            if which == 't':
                self.d.dump(f, text_mode=True)
            else:
                self.d.dump(f)
            f.truncate()                 # cut what is left of a longer previous dump (never truncate to 0 first:
            f.flush()                    # ext4 then forces the blocks out on the next close() of any handle)
            self._written.add(which)
        f.seek(0)
        return f

    def get(self, form, api):
        """(source, is_iterator, closer)"""
        if form == 'str':
            return self.text, False, None
        if form == 'bytes' or form == 'bytesio':
            if self._bytes is None:
                self._bytes = self.text.encode('utf-8')
            if form == 'bytes':
                return self._bytes, False, None
            return io.BytesIO(self._bytes), True, None
        if form == 'stringio':
            return io.StringIO(self.text), True, None
        if form in SEQ_FORMS:            # the plain list handed to the constructor (only the first paragraph is read)
            self.lines()
            return list(self._nl if form == 'lines-nl-seq' else self._lines), False, None
        if form == 'lines-nl' or form == 'lines-bare':
            self.lines()
            seq = self._nl if form == 'lines-nl' else self._lines
            if api == 'ctor':
                return iter(seq), True, None       # an iterator, so that what follows the first paragraph can be read
            return seq, True, None
        if form == 'textfile':
            return self._file('t'), True, None
        if form == 'binfile':
            return self._file('b'), True, None
        if form == UNIVERSAL:
            self._file('t')
            f = open(scratch_files(self.ctx)['tpath'], 'r', encoding='utf-8')
            return f, True, f.close
        raise ValueError('unknown form %r' % form)

    def file_content(self, form):
        try:
            f = scratch_files(self.ctx)['b' if form == 'binfile' else 't']
            f.seek(0)
            return f.read()
        except Exception as e:           # only used to word a report
            return '<unreadable: %s>' % e


# ---------------------------------------------------------------------------
# PARSE-SIDE class: values also enter a paragraph by parsing.  A document is a list of PHYSICAL lines (cut at LF only);
# a physical line may contain a lone CR (or, when handed over as ONE list element, a CR LF) followed by text that
# would be rejected as an assigned value.  IF the parser hands back a paragraph, every value in it must be free of the
# stated defects (M.parsed-value) and, after ordinary accepted assignments, the dump must re-read as ONE paragraph
# with the same field names (M.reread-parsed).  If the parser raises, nothing is demanded.

PTOKENS = ['a', ':', ' ', '\t', '\r', '\r\n', '#', '-', 'B: x']
PENUM_MAXLEN = {'quick': 4, 'thorough': 6}
PENUM_FULL = {'quick': 3, 'thorough': 5}      # above this length the strings are thinned out:
PENUM_THIN = {'quick': (1, 3), 'thorough': (3, 9)}   # every N-th string in contexts 0 and 3 / in the other contexts
# where the enumerated string s is put: (lines of the field before the hot line, prefix of the hot line)
PCONTEXTS = [([], 'Fld: '),                    # field line, s is the whole value
             ([], 'Fld: old'),                 # field line, s after text
             ([], 'Fld:'),                     # right after the colon
             (['Fld: old'], ' c1'),            # continuation line, s after text
             (['Fld:'], ' ')]                  # first continuation of a value whose first line is empty
# (lines before the field, lines after it)
PLAYOUTS = [(['Pkg: p1'], ['Zed: z9']),                                   # middle field
            ([], []),                                                     # sole field
            (['Pkg: p1', 'Ver: 1.0-1'], []),                              # last field
            ([], ['Zed: z9', '', 'Pkg: second', 'Ver: 2']),               # first field, a second paragraph follows
            (['# comment', 'Pkg: p1', ' more', '#c2'], ['Zed:', ' z8', ' z9'])]   # comments, multi-line neighbours
POPS = [[['Zz', 'v1', 'setitem']],
        [['Pkg', 'p2', 'setitem']],
        [['Zed', 'multi\n line\n .\n more', 'setitem'], ['Zz', '', 'update']],
        [['Zz', 'bad\nB: x', 'setitem'], ['Pkg', 'p3', 'update']],
        [['zed', 'a\r b', 'setitem'], ['Zz', 'v2', 'setdefault']]]
LIST_FORMS = ['lines-bare', 'lines-nl', 'lines-bytes', 'lines-bytes-nl', 'lines-gen']
STREAM_FORMS = ['stringio', 'bytesio', 'textfile', 'binfile']
PARSE_FORMS = LIST_FORMS + STREAM_FORMS        # all hand the parser lines cut at LF only
WHOLE_FORMS = ['str', 'bytes']                 # cut by the library with splitlines(): ordinary-input histories only
PENUM_FORMS = ['lines-bare', 'stringio', 'lines-bytes', 'bytesio', 'lines-nl', 'textfile', 'lines-gen', 'binfile',
               'lines-bytes-nl', 'lines-bare', 'bytesio', 'lines-nl']
HIST_TOTAL = {'quick': 5000, 'thorough': 160000}
CR_JUNK = ['\r', '\r', '\r', '\r\r', '\r\n', ' \r', '\r \r', '\r\t\r', '\t\r', '\r\r\n']
CR_TAILS = INJECT + SPECIAL_LINES + ['', 'text', 'C: d', 'X: y',
                                     # indented tails: the parser may keep the CR inside an accepted value
                                     ' indented', '\tB: x', ' .', ' Inj: y', '  ', ' -----BEGIN PGP SIGNATURE-----',
                                     '\t# c', ' K:v', ' more\r text', ' x\r']
DOC_TEXT = ['p%d', 'some text %d', '%d.0-1', 'a (>= %d), b | c', 'http://x.example/%d', 'Name <n%d@example.org>']
DOC_CONT = [' line %d', ' more', ' .', '\tTabbed: %d', '  deeper %d', ' Key: looks like a field', ' # not a comment']


ORDINARY_NAME = re.compile(r'^[A-Za-z0-9][A-Za-z0-9-]*$')


def lone_cr(line):
    """The physical line (as the parser sees it, outer CR/LF stripped) still contains a CR."""
    return '\r' in line.strip('\r\n')


def hot_line(line):
    """The text after a CR inside the physical line would be a defective continuation of an assigned value."""
    core = line.strip('\r\n')
    return '\r' in core and bool(model.defects(core))


def rand_doc(r):
    """An ordinary control document as a list of physical lines; (lines, field names used)."""
    lines = []
    if r.random() < 0.15:
        lines.extend(r.choice([[''], ['', ''], ['#leading comment'], ['# c', '']]))
    used = []
    for pi in range(r.choice([1, 1, 1, 2, 2, 3])):
        if pi:
            lines.append('')
        names = r.sample(NAME_POOL, r.choice([1, 2, 3, 3, 4]))
        for i, name in enumerate(names):
            used.append(name)
            k = r.random()
            first = '' if k < 0.2 else (r.choice(DOC_TEXT) % r.randint(0, 99) if k < 0.9 else ''.join(
                r.choice(PRINTABLE) for _ in range(r.randint(1, 10))).strip() or 'x')
            sep = r.choice([': ', ': ', ': ', ':', ':\t', ' : ', ':  '])
            lines.append(name + (sep + first if first else r.choice([':', ': ', ':'])))
            ncont = r.choice([0, 0, 1, 2, 3]) if first else r.choice([1, 2, 3])
            for _ in range(ncont):
                c = r.choice(DOC_CONT)
                lines.append(c % r.randint(0, 99) if '%d' in c else c)
                if r.random() < 0.06:
                    lines.append(r.choice([' ', '  ', '\t', ' \t']))      # whitespace-only line inside a value
            if r.random() < 0.08:
                lines.append('#comment %d' % i)
    return lines, used


def rand_hist_case(r):
    lines, used = rand_doc(r)
    k = r.random()
    if k < 0.5:
        # one CR injection: a lone CR (or CR LF / CR CR ...) inside a field or continuation line, followed by a tail
        cand = [i for i, l in enumerate(lines) if l and not l.startswith('#')]
        i = r.choice(cand)
        junk, tail = r.choice(CR_JUNK), r.choice(CR_TAILS)
        l = lines[i]
        if r.random() < 0.25 and len(l) > 2:
            cut = r.randint(1, len(l) - 1)
            lines[i] = l[:cut] + junk + tail + (l[cut:] if r.random() < 0.5 else '')
        else:
            lines[i] = l + junk + tail
    elif k < 0.6:
        lines = [l + '\r' for l in lines]            # an ordinary CR LF terminated file
    form = r.choice(PARSE_FORMS + PARSE_FORMS + WHOLE_FORMS) if k >= 0.5 else r.choice(PARSE_FORMS)
    case = {'kind': 'parse', 'lines': lines, 'form': form, 'api': 'ctor' if r.random() < 0.25 else 'iter',
            'ws': r.random() < 0.5}
    if r.random() < 0.1 and used:
        case['fields'] = r.sample(used, r.randint(1, len(used)))
    ops = []
    if r.random() < 0.5:
        ops.append(['X-First', 'v%d' % r.randint(0, 9), 'setitem'])
    for j in range(r.choice([1, 2, 2, 3, 4])):
        if used and r.random() < 0.6:
            target = r.choice(used)
            if r.random() < 0.2:
                target = r.choice([target.lower(), target.upper()])
        else:
            target = r.choice(['X-New-%d' % j, r.choice(NAME_POOL)])
        v = rand_value(r) if r.random() < 0.7 else r.choice(['v', '', '1.0', 'plain text', 'two\n lines'])
        ops.append([target, v, r.choice(['setitem', 'setitem', 'update', 'setdefault'])])
    case['ops'] = ops
    return case


def parse_source(ctx, lines, form):
    """(source, closer): the document in one input form.  A fresh object per call."""
    if form in LIST_FORMS:
        if form == 'lines-bare':
            return list(lines)
        if form == 'lines-nl':
            return [l + '\n' for l in lines]
        if form == 'lines-bytes':
            return [l.encode('utf-8') for l in lines]
        if form == 'lines-bytes-nl':
            return [(l + '\n').encode('utf-8') for l in lines]
        return (l for l in list(lines))            # lines-gen: a one-shot iterator of str lines
    text = '\n'.join(lines) + '\n' if lines else ''
    if form == 'str':
        return text
    if form == 'bytes':
        return text.encode('utf-8')
    if form == 'stringio':
        return io.StringIO(text)
    if form == 'bytesio':
        return io.BytesIO(text.encode('utf-8'))
    if form in ('textfile', 'binfile'):
        f = scratch_files(ctx)['t' if form == 'textfile' else 'b']
        f.seek(0)
        f.write(text if form == 'textfile' else text.encode('utf-8'))
        f.truncate()
        f.flush()
        f.seek(0)
        return f
    raise ValueError('unknown parse form %r' % form)


def assign_live(ctx, d, target, v, route, small):
    """One assignment to a live (parsed) paragraph under the monitors of the assignment side.
    True: accepted; False: rejected (and verified unchanged); None: a violation was recorded, stop this paragraph."""
    from ..core import MonitorViolation
    from .. import contracts
    dfx = model.defects(v)
    if route == 'setdefault' and target in d:
        route = 'setitem'            # setdefault on a present field assigns nothing
    ctx.count('parse:op:' + route)
    before = (list(d), d.dump())
    try:
        K_ACTIVE[0] = True
        if route == 'update':
            d.update({target: v})
        elif route == 'setdefault':
            d.setdefault(target, v)
        else:
            d[target] = v
    except MonitorViolation as e:
        contracts.PENDING[:] = []
        ctx.violation(e.key, e.msg, small)
        return None
    except Exception as e:
        K_ACTIVE[0] = False
        ctx.count('parse:op-rejected')
        if not isinstance(e, ValueError):
            ctx.violation('rejection-not-ValueError',
                          'assigning %r to %r of a parsed paragraph raised %s (%s), not ValueError'
                          % (v, target, type(e).__name__, e), small)
        if not dfx:
            ctx.extra['rejected_without_stated_defect'] += 1
        ctx.mon('M.unchanged')
        after = (list(d), d.dump())
        if after != before:
            ctx.violation('rejected-assignment-changed-paragraph',
                          'assigning %r to %r of a parsed paragraph was rejected (%s) but list/dump changed: %r -> %r'
                          % (v, target, type(e).__name__, before, after), small)
            return None
        return False
    finally:
        K_ACTIVE[0] = False
    ctx.count('parse:op-accepted')
    ctx.mon('M.must-reject')
    if dfx:
        ctx.violation('defective-value-accepted/' + dfx[0],
                      'value %r has the stated defect(s) %s but assigning it to %r (%s) of a parsed paragraph was '
                      'accepted; dump is %r' % (v, '+'.join(dfx), target, route, d.dump()), small)
        return None
    return True


def run_parse(ctx, case, depth='none', sel=0, lazy=False):
    """Parse one document; judge what the parser hands back (nothing if it raises)."""
    from debian.deb822 import Deb822
    from ..core import MonitorViolation
    lines, form, api = case['lines'], case['form'], case.get('api', 'iter')
    strict = None if case.get('ws', True) else WS_FALSE
    fields = case.get('fields')
    ops = case.get('ops') or []
    ctx.mon('M.parse')
    ctx.count('parse:form:' + form)
    ctx.count('parse:api:' + api)
    cr = any(lone_cr(l) for l in lines)
    hot = cr and any(hot_line(l) for l in lines)
    if cr:
        ctx.count('parse:lone-cr')
        if form in LIST_FORMS and any('\r\n' in l.strip('\r\n') for l in lines):
            ctx.count('parse:crlf-inside-list-element')
    if hot:
        ctx.count('parse:hot')
        ctx.count('parse:hot:' + ('list' if form in LIST_FORMS else 'stream' if form in STREAM_FORMS else 'whole'))
    if cr or any(l[:1] in (' ', '\t') for l in lines):
        ctx.nontrivial(case={'lines': lines}, key=hashlib.sha1(('parse\0' + '\n'.join(lines)).encode('utf-8')).hexdigest())
    try:
        src = parse_source(ctx, lines, form)
        if api == 'iter':
            paras = list(Deb822.iter_paragraphs(src, fields=fields, strict=strict))
        else:
            first = Deb822(src, fields=fields, strict=strict)
            paras = [first] if first else []
    except MonitorViolation:
        raise
    except Exception as e:          # the parser refuses the document: nothing is demanded
        ctx.count('parse:raised')
        ctx.count('parse:raised:' + type(e).__name__)
        if hot:
            ctx.count('parse:hot-raised')
        return
    ctx.count('parse:accepted')
    if hot:
        ctx.count('parse:hot-accepted')
    if not paras:
        ctx.count('parse:no-paragraph')
    for pi, p in enumerate(paras[:3]):
        # (a) no value obtained by parsing may carry a stated defect
        values = []
        for key in list(p):
            val = p[key]
            if not isinstance(val, str):
                ctx.count('parse:non-str-value')
                continue
            values.append(val)
            ctx.mon('M.parsed-value')
            dfx = model.defects(val)
            if dfx:
                ctx.violation('parsed-value-has-stated-defect/' + dfx[0],
                              'parsing %r (form %s, %s, strict=%r) was accepted and paragraph %d holds %s = %r, which has '
                              'the stated defect(s) %s (the validator must reject this value); dump is %r'
                              % (lines, form, api, strict, pi, key, val, '+'.join(dfx), p.dump()), case)
        if any('\r' in x for x in values):
            ctx.count('parse:accepted-cr-value')
        if not all(ORDINARY_NAME.match(key) for key in p):
            ctx.count('parse:odd-field-name')     # names are not under test: no history / re-read on this paragraph
            continue
        if lazy and (sel + pi) % 4 and not any('\r' in x for x in values):
            continue                 # enumerated documents: a paragraph without CR in any value goes through the
                                     # history + re-read for every 4th document only
        # (b) history: parse, assign, assign, dump, re-read
        accepted = 0
        last = None
        aborted = False
        for target, v, route in ops:
            ok = assign_live(ctx, p, target, v, route, case)
            if ok is None:
                aborted = True
                break
            if ok:
                accepted += 1
                last = v
        if accepted and not aborted:
            ctx.count('parse:history-reread')
            if len(ops) > 1:
                ctx.count('parse:history-reread-multi-op')
            check_reread(ctx, p, last, case, what='dump of the parsed paragraph (%d of %r, form %s) after the assignments %r'
                         % (pi, lines, form, ops), depth=depth, sel=sel + pi,
                         values=[p[k] for k in p], suffix='/after-parse')


def run_penum(ctx, case):
    """One block of the enumerated parse-side documents: one context, one token prefix, all suffixes."""
    k, ci = case['k'], case['c']
    prefix = ''.join(PTOKENS[i] for i in case['prefix'])
    before, pre = PCONTEXTS[ci]
    slen = k - len(case['prefix'])
    n = sum(case['prefix']) + k + ci
    first = True
    for suffix in itertools.product(PTOKENS, repeat=slen):
        s = prefix + ''.join(suffix)
        n += 1
        if k > PENUM_FULL[ctx.tier] and n % PENUM_THIN[ctx.tier][0 if ci in (0, 3) else 1]:
            continue
        if not first:
            ctx.evaluations += 1
        first = False
        ctx.count('penum-len:%d' % k)
        h = zlib.crc32(s.encode('utf-8')) + ci
        head, tail = PLAYOUTS[n % len(PLAYOUTS)]
        doc = {'kind': 'parse', 'lines': head + before + [pre + s] + tail,
               'form': PENUM_FORMS[h % len(PENUM_FORMS)], 'api': 'ctor' if (h >> 5) % 4 == 0 else 'iter',
               'ws': bool((h >> 8) & 1), 'ops': POPS[(h >> 10) % len(POPS)]}
        depth = 'one' if '\r' in s and (h >> 13) % 4 == 0 else 'none'
        run_parse(ctx, doc, depth=depth, sel=h >> 3, lazy=True)


# ---------------------------------------------------------------------------
# SUBCLASS LAYER: the same assignment -> dump -> re-read discipline on Dsc, Changes, BuildInfo, Sources, Packages,
# Release and PdiffIndex paragraphs (plain Deb822 rides along as a control class).  A case of kind 'sub' is a HISTORY
# of self-contained steps executed in one process, each on a fresh object:
#   prime - a class in which field name X is MULTIVALUED (so its value is not validated as text there) parses X / is
#           assigned records or a string under X.  Nothing is demanded of a prime step; it only makes history.
#   judge - a class in which the target name is an ORDINARY text field is assigned a (mostly hostile) string; judged
#           exactly as on the assignment side (M.must-reject / M.unchanged / K), and an accepted value is dumped and
#           re-read through THAT class's own iter_paragraphs / constructor with an explicit strict setting.
# Acceptance or rejection of a value by class B must not depend on what other classes or objects did before.

SUBCLASSES = ['Dsc', 'Changes', 'BuildInfo', 'Sources', 'Packages', 'Release', 'PdiffIndex', 'Deb822']
_SRC_MV = {'files': 3, 'checksums-sha1': 3, 'checksums-sha256': 3, 'checksums-sha512': 3}
_PDIFF_MV = [p + h + '-' + k for p in ('', 'x-unmerged-') for h in ('sha1', 'sha256')
             for k in ('history', 'patches', 'download')] + ['sha1-current', 'sha256-current']
# independent model of which field names each class documents as multivalued (lower case -> number of record columns)
MV_MODEL = {
    'Dsc': dict(_SRC_MV),
    'Changes': dict(_SRC_MV, files=5),
    'Sources': dict(_SRC_MV),
    'BuildInfo': {'checksums-md5': 3, 'checksums-sha1': 3, 'checksums-sha256': 3, 'checksums-sha512': 3},
    'Release': {'md5sum': 3, 'sha1': 3, 'sha256': 3, 'sha512': 3},
    'PdiffIndex': dict((n, 2 if n.endswith('current') else 3) for n in _PDIFF_MV),
    'Packages': {},
    'Deb822': {},
}
DISPLAY = {'files': 'Files', 'checksums-sha1': 'Checksums-Sha1', 'checksums-sha256': 'Checksums-Sha256',
           'checksums-sha512': 'Checksums-Sha512', 'checksums-md5': 'Checksums-Md5', 'md5sum': 'MD5Sum', 'sha1': 'SHA1',
           'sha256': 'SHA256', 'sha512': 'SHA512', 'sha1-history': 'SHA1-History', 'sha256-history': 'SHA256-History',
           'sha1-patches': 'SHA1-Patches', 'sha256-patches': 'SHA256-Patches', 'sha1-download': 'SHA1-Download',
           'sha256-download': 'SHA256-Download', 'sha1-current': 'SHA1-Current', 'sha256-current': 'SHA256-Current',
           'x-unmerged-sha1-history': 'X-Unmerged-SHA1-History', 'x-unmerged-sha256-history': 'X-Unmerged-SHA256-History',
           'x-unmerged-sha1-patches': 'X-Unmerged-SHA1-Patches', 'x-unmerged-sha256-patches': 'X-Unmerged-SHA256-Patches',
           'x-unmerged-sha1-download': 'X-Unmerged-SHA1-Download',
           'x-unmerged-sha256-download': 'X-Unmerged-SHA256-Download'}
# the names driven through the complete cross-class enumeration (every class pair); the random histories use all
ENUM_X = ['files', 'checksums-sha1', 'checksums-sha256', 'checksums-sha512', 'checksums-md5', 'md5sum', 'sha1', 'sha256',
          'sha512', 'sha1-history', 'sha256-history', 'sha1-patches', 'sha256-download', 'x-unmerged-sha1-history']
ALL_X = sorted(DISPLAY)
# ordinary text fields of every class (none of them multivalued in THAT class)
CLASS_FIELDS = {
    'Dsc': ['Format', 'Source', 'Binary', 'Architecture', 'Version', 'Maintainer', 'Build-Depends', 'Package-List',
            'Description'],
    'Changes': ['Format', 'Date', 'Source', 'Binary', 'Architecture', 'Version', 'Distribution', 'Changed-By',
                'Description', 'Changes'],
    'BuildInfo': ['Format', 'Source', 'Binary', 'Architecture', 'Version', 'Build-Origin', 'Build-Date',
                  'Installed-Build-Depends', 'Environment', 'Files'],
    'Sources': ['Package', 'Binary', 'Version', 'Maintainer', 'Build-Depends', 'Architecture', 'Directory',
                'Package-List', 'Section'],
    'Packages': ['Package', 'Source', 'Version', 'Depends', 'Pre-Depends', 'Description', 'Filename', 'MD5sum', 'SHA256',
                 'Built-Using'],
    'Release': ['Origin', 'Label', 'Suite', 'Codename', 'Date', 'Architectures', 'Components', 'Description', 'Files'],
    'PdiffIndex': ['Canonical-Name', 'Canonical-Path', 'X-Patch-Precedence', 'X-DAK-Older-Patches', 'MD5Sum', 'Files'],
    'Deb822': NAME_POOL + ['Files', 'SHA256'],
}
HOSTILE_X = ['a\nB: x', 'a\n\n b', 'a\n', 'a\rInj: y', '\nB: x', 'a\n b\nK:v', ' 0123 12 n_1.dsc\nXtra:',
             '\n 0123abcd 12 n_1.0.dsc\n\n 4567ef 8 n_1.0.tar.gz', 'a\r\nB:\tx', '\n 01 2 n\nInj: y\n 34 5 m']
GOOD_X = ['ok', 'a\n b', '\n 0123abcd 12 n_1.0.dsc\n 4567ef 3456 n_1.0.tar.gz', 'a\n \n b', '\n b\n .\n c', 'a\r b',
          '\n 01 2 n\n\t\n 34 5 m', 'x\n Inj: y\n  \n B: x']
# accepted values holding a whitespace-only continuation line (with and without text behind it)
WS_VALUES = ['a\n \n b', 'a\n\t\n b', '\n \n b', 'a\n .\n  \n c\n \t \n d', 'a\n ', 'a\r\n \r\n b', 'a\r \r b',
             'a\n b\n \t', '\n 0123 12 n.dsc\n \n 4567 8 m.dsc', 'a\n \n B: x']
RECS = [[['0123456789abcdef0123456789abcdef', '1234', 'hello_1.0-1.dsc', 'optional', 'hello_1.0-1_amd64.deb', 'x'],
         ['fedcba9876543210fedcba9876543210', '56', 'hello_1.0.orig.tar.gz', 'extra', 'hello_1.0-1.dsc', 'y']],
        [['aa', '1', 'main/binary-amd64/Packages', 'devel', 'n', 'z']],
        [['d41d8cd9', '0', '2024-01-01-0000.00', 'net', 'p.gz', 'q'], ['e3b0c442', '98765432', '2024-01-02-0000.00',
                                                                        'net', 'q.gz', 'r'],
         ['9f86d081', '7', 'T-2024-01-03-0000.00-F-2024-01-01', 'misc', 's.gz', 't']]]
PRIME_HOWS = [('parse', 'lines'), ('setitem', 'recs'), ('setitem', 'string'), ('dict', 'recs'), ('dict', 'string'),
              ('update', 'string')]
PRIME_FORMS = ['str', 'lines-bare', 'stringio', 'bytes', 'bytesio', 'lines-nl', 'lines-gen']
SUB_ROUTES = ['setitem', 'setitem', 'update', 'ctor', 'setitem', 'setdefault', 'copy']
SUB_BUILDS = ['assign', 'parse', 'assign', 'dict', 'parse-stream']
SUB_RANDOM_TOTAL = {'quick': 1400, 'thorough': 80000}
SUBLOG_KEEP = 400
PRELUDE_STEPS = 60

DECL = {}                # class name -> {lower-case name: record keys} as the class declares them at import time
PRIMED = set()           # lower-case names some prime step of this process has touched
SUBLOG = []              # the steps this process executed in earlier 'sub' cases (most recent last)
CONFIRM_BUDGET = [6]     # violations per shard whose witness is confirmed in a fresh interpreter


def sub_cls(name):
    from debian import deb822
    return getattr(deb822, name)


def snapshot_decl():
    """What each class declares as multivalued, read ONCE before any workload runs: the declaration at import time
    is part of the domain (a name a class declares multivalued is never judged as text there); whatever a class
    learns later from other classes or objects is not."""
    if DECL:
        return
    for c in SUBCLASSES:
        mv = getattr(sub_cls(c), '_multivalued_fields', None) or {}
        DECL[c] = dict((str(k).lower(), [str(x) for x in v]) for k, v in mv.items())


def ordinary(clsname, name):
    """name is an ordinary text field of the class: neither the reference table nor the class's own declaration (as
    snapshot at start) says multivalued."""
    n = name.lower()
    return n not in MV_MODEL[clsname] and n not in DECL[clsname]


def spell(x, k):
    d = DISPLAY[x]
    return (d, d, x, d.upper(), d)[k % 5]


def make_records(keys, spec):
    recs = [dict(zip(keys, (toks + ['x'] * len(keys))[:len(keys)])) for toks in spec['recs']]
    return recs[0] if spec.get('single') else recs


def sub_plan(depth, sel):
    """Extra (form, api) pairs of a subclass-layer re-read, beyond str x cls.iter_paragraphs and bytes x cls / str x Deb822."""
    if depth == 'all':
        return SUB_ALL
    if depth == 'ws':       # whitespace-only continuation: text, lines and file forms, iterator and constructor
        ctor = ALL_FORMS + list(SEQ_FORMS)
        return [(('stringio', 'lines-nl')[(sel >> 6) & 1], 'iter'), (('lines-bare', 'bytesio')[(sel >> 7) & 1], 'iter'),
                (DISK_LF_FORMS[sel & 1], 'iter'), (ctor[(sel >> 1) % len(ctor)], 'ctor'),
                (ctor[((sel >> 1) + 1 + (sel >> 9) % 5) % len(ctor)], 'ctor')]
    if depth == 'one':
        ctor = ALL_FORMS + list(SEQ_FORMS)
        combos = [(f, 'iter') for f in LF_FORMS] + [(f, 'ctor') for f in ctor]
        return [combos[sel % len(combos)]]
    return plan(depth, sel)


# ---- generators (pure functions of indices / the seeded stream; every step is JSON)

def mk_prime(a, x, hi, i, v):
    how, payload = PRIME_HOWS[hi]
    name = spell(x, i)
    st = {'op': 'prime', 'cls': a, 'name': name, 'how': how}
    recs = RECS[i % len(RECS)]
    if payload == 'lines':
        n = MV_MODEL[a][x]
        if i % 5 == 0:
            body = [name + ': ' + ' '.join(recs[0][:n])]                 # single record on the field line
        else:
            body = [name + ':'] + [' ' + ' '.join(t[:n]) for t in recs]
        st['lines'] = ['Source: pkg%d' % (i % 5)] + body + ['Version: 1.%d' % (i % 7)]
        st['form'] = PRIME_FORMS[i % len(PRIME_FORMS)]
        st['api'] = 'ctor' if i % 3 == 0 else 'iter'
        st['ws'] = bool(i % 2)
    elif payload == 'recs':
        st['recs'] = recs
        if i % 4 == 0:
            st['single'] = True
    else:
        st['v'] = v
    return st


def mk_judge(cls, x, v, k, depth=None, layout=None):
    fields_pool = CLASS_FIELDS[cls]
    target = spell(x, k + 1) if x in DISPLAY else x
    f0, f2, f3 = fields_pool[0], fields_pool[2], fields_pool[3]
    old = [spell(x, k) if x in DISPLAY else x, 'old']
    own = sorted(MV_MODEL[cls])
    ownf = [DISPLAY[own[k % len(own)]], {'recs': RECS[k % len(RECS)]}] if own else [f3, '\n z8\n z9']
    lay = k % 6 if layout is None else layout
    if lay == 0:
        fields = [[f0, 'p1'], old, [f2, 'z9']]                      # middle, replace
    elif lay == 1:
        fields = [old, [f0, 'p1'], [f2, 'z9'], [f3, '1']]           # first, replace
    elif lay == 2:
        fields = [[f0, 'p1\n p2'], old, ownf, [f2, 'z9']]           # before the class's own multivalued field
    elif lay == 3:
        fields = [[f0, 'p1'], [f2, 'z9']]                           # new, last
    elif lay == 4:
        fields = [ownf, [f0, 'p1'], old]                            # last, replace, after the own multivalued field
    else:
        fields = []                                                 # sole, new
    st = {'op': 'judge', 'cls': cls, 'fields': fields, 'target': target, 'v': v,
          'route': SUB_ROUTES[k % len(SUB_ROUTES)], 'build': SUB_BUILDS[(k // 2) % len(SUB_BUILDS)]}
    if depth:
        st['depth'] = depth
    return st


def sub_enum_cases(quick=False):
    """Every (name X, class A where X is multivalued, class B where it is ordinary) x 6 ways of priming x 2 orders.
    Order 1 (B judged BEFORE A primes) comes first, so that in every process the first case of a name meets a class
    that has not yet seen the name primed.  quick: every triple in both orders, three of the six ways of priming per
    order (the complementary three in the other order)."""
    i = 0
    for order in (1, 0):
        for x in ENUM_X:
            As = [c for c in SUBCLASSES if x in MV_MODEL[c]]
            Bs = [c for c in SUBCLASSES if x not in MV_MODEL[c]]
            for a in As:
                for bi, b in enumerate(Bs):
                    for hi in range(len(PRIME_HOWS)):
                        i += 1
                        if quick and (i + order) % 2:
                            continue
                        b2 = Bs[(bi + 1 + i % (len(Bs) - 1)) % len(Bs)]
                        h1 = HOSTILE_X[i % len(HOSTILE_X)]
                        h2 = HOSTILE_X[(i // 7 + 3) % len(HOSTILE_X)]
                        g = GOOD_X[(i // 2) % len(GOOD_X)]
                        prime = mk_prime(a, x, hi, i, h1)
                        if order == 0:
                            steps = [prime, mk_judge(b, x, h1, i), mk_judge(b, x, g, i + 1, depth='one'),
                                     mk_judge(b2, x, h2, i + 2)]
                        else:
                            steps = [mk_judge(b, x, h1, i), prime, mk_judge(b, x, h1, i + 3),
                                     mk_judge(b2, x, g, i + 1, depth='one'), mk_judge(b, x, h2, i + 2)]
                        yield {'kind': 'sub', 'wl': 'enum', 'steps': steps}


def sub_ws_cases(quick=False):
    """Whitespace-only continuation lines followed by further fields: every class x every WS value x three layouts in
    which the target is not the last field x two ways of building the paragraph; every (class, value) is re-read in every
    (form, API) pair once, the other five (layout, build) variants in five rotating pairs."""
    i = 0
    for cls in SUBCLASSES:
        names = [x for x in ENUM_X if x not in MV_MODEL[cls]]
        for vi, v in enumerate(WS_VALUES):
            for lay in (0, 1, 2):
                for build in ('assign', 'parse'):
                    i += 1
                    if quick and lay not in (vi % 3, (vi + 1) % 3):
                        continue             # quick: two of the three layouts per value
                    x = names[i % len(names)] if i % 3 else ('Description', 'Package-List')[i % 2]
                    # every (form, API) pair once per (class, value); the other layouts / builds: a rotating selection
                    st = mk_judge(cls, x, v, i, depth='all' if (lay, build) == (vi % 3, ('assign', 'parse')[vi % 2])
                                  else 'ws', layout=lay)
                    st['build'] = build
                    st['route'] = ('setitem', 'update', 'setitem', 'ctor')[i % 4]
                    yield {'kind': 'sub', 'wl': 'ws-enum', 'steps': [st]}


REL_FIELDS = {'Packages': ['Depends', 'Pre-Depends', 'Recommends', 'Suggests', 'Breaks', 'Conflicts', 'Provides', 'Replaces',
                           'Enhances', 'Built-Using'],
              'Sources': ['Build-Depends', 'Build-Depends-Indep', 'Build-Depends-Arch', 'Build-Conflicts',
                          'Build-Conflicts-Indep', 'Build-Conflicts-Arch', 'Binary'],
              'BuildInfo': ['Installed-Build-Depends']}


def sub_field_cases():
    """Every class x each of its usual ordinary fields (incl. the fields the class offers structured access to:
    relationship fields, Version) and 'Package-List': three hostile values and one accepted multi-line value."""
    i = 0
    for cls in SUBCLASSES:
        names = list(CLASS_FIELDS[cls])
        for n in REL_FIELDS.get(cls, []) + ['Version', 'Package-List']:
            if n not in names:
                names.append(n)
        for name in names:
            if name.lower() in MV_MODEL[cls]:
                continue
            i += 1
            steps = [mk_judge(cls, name, HOSTILE_X[(i + j * 3) % len(HOSTILE_X)], i + j) for j in range(3)]
            steps.append(mk_judge(cls, name, (GOOD_X + WS_VALUES)[i % (len(GOOD_X) + len(WS_VALUES))], i + 3, depth='one'))
            yield {'kind': 'sub', 'wl': 'field-enum', 'steps': steps}


def ws_value(r):
    first = r.choice(['a', '', 'text %d' % r.randint(0, 9), '0123 12 n.dsc'])
    bound = r.choice(['\n', '\n', '\n', '\r\n', '\r'])
    lines = [r.choice([' b', ' .', '\tB: x', ' Inj: y', ' 4567ef 8 m.tar.gz', '  deeper']) for _ in range(r.randint(0, 3))]
    for _ in range(r.choice([1, 1, 2])):
        lines.insert(r.randint(0, len(lines)), r.choice([' ', '\t', '  ', ' \t ']))
    return first + bound + bound.join(lines)


def rand_sub_judge(r, x, k):
    if x is not None and r.random() < 0.75:
        cls = r.choice([c for c in SUBCLASSES if x not in MV_MODEL[c]])
        tname = x
    else:
        cls = r.choice(SUBCLASSES)
        q = r.random()
        if q < 0.35:
            tname = r.choice([n for n in ALL_X if n not in MV_MODEL[cls]])
        elif q < 0.75:
            tname = r.choice(CLASS_FIELDS[cls])
        elif q < 0.85:
            tname = 'Package-List'
        else:
            tname = 'X-Sub-%d' % r.randint(0, 3)
    q = r.random()
    if q < 0.3:
        v = ws_value(r)
    elif q < 0.85:
        v = rand_value(r)
    else:
        v = r.choice(GOOD_X + HOSTILE_X)
    st = mk_judge(cls, tname, v, k + r.randint(0, 29))
    # neighbours from the class's own field list instead of the fixed three
    pool = [n for n in CLASS_FIELDS[cls] if n.lower() != tname.lower()]
    ren = {}
    for f in st['fields']:
        if isinstance(f[1], str) and f[1] != 'old' and f[0] in CLASS_FIELDS[cls][:4]:
            ren.setdefault(f[0], r.choice([n for n in pool if n not in ren.values()]))
            f[0] = ren[f[0]]
            if r.random() < 0.3:
                val = r.choice(NEIGHBOUR_VALUES)
                f[1] = val % k if '%d' in val else val
    st['route'] = r.choice(SUB_ROUTES)
    st['build'] = r.choice(SUB_BUILDS)
    return st


def rand_sub_case(r, k):
    x = (r.choice(ENUM_X[:9]) if r.random() < 0.6 else r.choice(ALL_X)) if r.random() < 0.75 else None
    steps = []
    for j in range(r.choice([1, 1, 2, 3, 4, 5, 6])):
        if x is not None and r.random() < 0.35:
            a = r.choice([c for c in SUBCLASSES if x in MV_MODEL[c]])
            v = steps[-1]['v'] if steps and 'v' in steps[-1] and r.random() < 0.5 else r.choice(HOSTILE_X + [rand_value(r)])
            steps.append(mk_prime(a, x, r.randrange(len(PRIME_HOWS)), k + j + r.randint(0, 34), v))
        else:
            st = rand_sub_judge(r, x, k + j)
            # now and then the very value a prime step has just put under the name in another class
            if steps and steps[-1]['op'] == 'prime' and 'v' in steps[-1] and r.random() < 0.5:
                st['v'] = steps[-1]['v']
            steps.append(st)
    if not any(s['op'] == 'judge' for s in steps):
        steps.append(rand_sub_judge(r, x, k))
    return {'kind': 'sub', 'wl': 'hist', 'steps': steps}


# ---- STRINGS UNDER MULTIVALUED NAMES (step op 'mvstr'): a class in which the name IS multivalued is assigned a STRING
# under it (assignment-time validation is skipped there; the class relies on its dump-time formatter), followed by at
# least one more field.  The library may refuse at assignment or at dump() - both fine, counted.  Whatever text dump()
# is willing to return must re-read as ONE paragraph with exactly the names of the paragraph.

MVS_ROUTES = ['setitem', 'update', 'setdefault', 'ctor', 'copy']
MVS_BUILDS = ['assign', 'parse', 'assign', 'parse-stream']
MVS_LAYOUTS = 5
MVS_TOKS = [['0123abcd', '12', 'n_1.0.dsc', 'optional', 'extra'], ['4567ef', '3456', 'n_1.0.tar.gz', 'devel', 'net'],
            ['89ab', '7', 'm.gz', 'misc', 'x_1_all.deb']]
MVS_INJ = [['Inj:', 'y', 'z', 'w', 'q'], ['B:x', '2', 'n', 'o', 'p'], ['K:', 'v', 'm', 'o', 'p']]
MVS_ENUM_MAXLEN = {'quick': 3, 'thorough': 5}
MVS_ENUM_FULL = {'quick': 2, 'thorough': 4}        # above this length the strings are thinned out: every N-th string
MVS_ENUM_THIN = {'quick': (1, 2), 'thorough': (4, 4)}    # in contexts 1 and 4 (s follows a well-formed record) / the others
MVS_RANDOM_TOTAL = {'quick': 1600, 'thorough': 70000}


# names driven like multivalued ones although the reference table calls them ordinary text (structured in the format,
# 'package type section priority'): whatever the class does with them, the demand below holds for ANY field
MVS_EXTRA = [('Dsc', 'package-list'), ('Sources', 'package-list')]
MVS_EXTRA_COLS = 4


def mv_pairs():
    """Every (class, lower-case name) the reference table says is multivalued in that class, MVS_EXTRA, and whatever
    else a class itself declares multivalued when the shard starts."""
    out = [(c, x) for c in _SUB_PRIME_CLASSES for x in sorted(MV_MODEL[c])] + MVS_EXTRA
    out += [(c, x) for c in _SUB_PRIME_CLASSES for x in sorted(DECL.get(c, ())) if (c, x) not in out]
    return out


def mv_ncols(cls, x):
    if x in DECL.get(cls, ()):
        return max(1, len(DECL[cls][x]))
    return MV_MODEL[cls].get(x, MVS_EXTRA_COLS)


def mv_spell(x, k):
    d = DISPLAY.get(x) or '-'.join(w.capitalize() for w in x.split('-'))
    return (d, d, x, d.upper(), d)[k % 5]


def mvs_line(ncols, j, pool=MVS_TOKS):
    return ' '.join(pool[j % len(pool)][:ncols])


def mvs_shapes(ncols):
    """[(label, string)]: record text for a field of ncols columns - well-formed, and with each of the shapes that
    would inject / split if a formatter wrote them out as they are (every line has exactly ncols tokens, so that a
    formatter that only counts columns is content)."""
    r1, r2, r3 = mvs_line(ncols, 0), mvs_line(ncols, 1), mvs_line(ncols, 2)
    i1, i2, i3 = mvs_line(ncols, 0, MVS_INJ), mvs_line(ncols, 1, MVS_INJ), mvs_line(ncols, 2, MVS_INJ)
    wf = [('nl-records', '\n %s\n %s' % (r1, r2)), ('records', '%s\n %s' % (r1, r2)), ('single', r1),
          ('nl-single', '\n ' + r1)]
    out = list(wf)
    for label, s in wf:
        out.append((label + '+lf', s + '\n'))
    out += [('nl-records+crlf', wf[0][1] + '\r\n'), ('records+cr', wf[1][1] + '\r'), ('single+lflf', r1 + '\n\n'),
            ('nl-records+lf-blank-lf', wf[0][1] + '\n \n'),
            ('empty-line-inside', '\n %s\n\n %s' % (r1, r2)), ('empty-line-inside:field-line', '%s\n\n %s' % (r1, r2)),
            ('empty-line-inside:crlf', '\n %s\r\n\r\n %s' % (r1, r2)), ('empty-line-inside:cr', '\n %s\r\r %s' % (r1, r2)),
            ('empty-line-first', '\n\n %s\n %s' % (r1, r2)),
            ('unindented', '\n %s\n%s' % (r1, i1)), ('unindented:middle', '\n %s\n%s\n %s' % (r1, i2, r2)),
            ('unindented:field-line', '%s\n%s' % (r1, i3)), ('unindented:cr', '\n %s\r%s' % (r1, i1)),
            ('unindented:cr:field-line', '%s\r%s' % (r1, i2)), ('unindented:cr:field-line:twice', '%s\r%s\r%s' % (r1, i1, i3)),
            ('single+tail', '%s %s' % (r1, i1)), ('single+cr', r1 + '\r'), ('single+cr-blank', r1 + '\r '),
            ('unindented:crlf', '\n %s\r\n%s\r\n %s' % (r1, i2, r2)), ('unindented:first', '\n%s\n %s' % (i1, r2)),
            ('unindented:record', '\n %s\n%s' % (r1, r2)), ('unindented:all', '\n%s\n%s' % (i3, i1)),
            ('blank-only-end', '\n %s\n ' % r1), ('blank-only-end:tab', '%s\n %s\n\t' % (r1, r2)),
            ('blank-only-end:field-line', r1 + '\n  '), ('blank-only-end:cr', '\n %s\r ' % r1),
            ('blank-only-inside', '\n %s\n \n %s' % (r1, r2)), ('blank-only-first', '\n \n %s' % r1),
            ('indented-lookalike', '\n %s\n %s' % (r1, i1)), ('comment-line', '\n %s\n#%s\n %s' % (r1, i1, r2)),
            ('cr-inside-token', '\n %s\n a\r%s' % (r1, i1)), ('tabs', '\n\t%s\n\t%s' % (r1.replace(' ', '\t'), r3)),
            ('pgp-line', '\n %s\n-----BEGIN PGP SIGNATURE-----\n %s' % (r1, r2)),
            ('empty', ''), ('lf', '\n'), ('blank', ' '), ('word', 'x'), ('short-record', '\n ' + ' '.join(r1.split()[:-1])),
            ('long-record', '\n %s extra\n %s' % (r1, r2))]
    return out


for _tier, _f in _MVS_FLOORS.items():       # every shape through item-assignment-like routes, cls(dict) and copy()
    if _f['per-shape-route']:
        FLOORS[_tier]['counters'].update(('mvs:shape-route:%s:%s' % (_l, _r), _f['per-shape-route'])
                                         for _l, _v in mvs_shapes(3) for _r in ('assign', 'ctor', 'copy'))


def _recs_text(spec, ncols):
    return '\n' + '\n'.join(' ' + ' '.join((t + ['x'] * ncols)[:ncols]) for t in spec['recs'])


def mk_mvstr(cls, x, v, k, route=None, layout=None, shape=None):
    """One judged step: class cls (x is multivalued there) gets the STRING v under x, and at least one more field."""
    pool = [n for n in CLASS_FIELDS[cls] if n.lower() != x and n.lower() not in MV_MODEL[cls]]
    f0, f2, f3 = pool[0], pool[2], pool[3]
    name = mv_spell(x, k)
    old = [mv_spell(x, k + 1), {'recs': RECS[k % len(RECS)]}]
    own = sorted(n for n in MV_MODEL[cls] if n != x)
    ownf = [DISPLAY[own[k % len(own)]], {'recs': RECS[(k + 1) % len(RECS)]}]
    lay = k % MVS_LAYOUTS if layout is None else layout
    if lay == 0:
        before, after = [[f0, 'p1']], [[f2, 'z9']]                          # new; one field assigned afterwards
    elif lay == 1:
        before, after = [[f0, 'p1'], old, [f2, 'z9']], []                   # replaces records, in the middle
    elif lay == 2:
        before, after = [], [[f0, 'p1'], [f3, '1']]                         # first; two fields assigned afterwards
    elif lay == 3:
        before, after = [[f0, 'p1\n p2'], ownf], [[f2, 'z9']]               # behind another multivalued field
    else:
        before, after = [old, [f0, 'p1']], [[f3, '\n z8\n z9']]             # replaces records, first; multi-line after
    st = {'op': 'mvstr', 'cls': cls, 'name': name, 'v': v, 'before': before, 'after': after,
          'route': MVS_ROUTES[(k // MVS_LAYOUTS) % len(MVS_ROUTES)] if route is None else route,
          'build': MVS_BUILDS[(k // 3) % len(MVS_BUILDS)]}
    if shape:
        st['shape'] = shape
    if cls == 'Release' and k % 3 == 0:
        st['dak'] = True
    return st


def mvs_enum_cases(quick=False):
    """(6a) every (class, multivalued name) x every shape x every route x two layouts (quick: every (pair, shape) with
    one rotating route + every (class, route, shape) on one rotating name of the class)."""
    i = 0
    for pi, (cls, x) in enumerate(mv_pairs()):
        shapes = mvs_shapes(mv_ncols(cls, x))
        for si, (label, v) in enumerate(shapes):
            for ri, route in enumerate(MVS_ROUTES):
                if quick and ri != (pi + si) % len(MVS_ROUTES):
                    continue
                for lay in ((i + ri) % MVS_LAYOUTS, (i + ri + 1 + si % 4) % MVS_LAYOUTS):
                    i += 1
                    yield {'kind': 'sub', 'wl': 'mvs-enum', 'steps': [mk_mvstr(cls, x, v, i, route, lay, label)]}
                    if quick:
                        break
    if quick:
        for ci, cls in enumerate(_SUB_PRIME_CLASSES):
            names = [x for c, x in mv_pairs() if c == cls]
            for ri, route in enumerate(MVS_ROUTES):
                x = names[(ci + ri) % len(names)]
                for si, (label, v) in enumerate(mvs_shapes(mv_ncols(cls, x))):
                    i += 1
                    yield {'kind': 'sub', 'wl': 'mvs-enum', 'steps': [mk_mvstr(cls, x, v, i, route, None, label)]}


MVS_CONTEXTS = 5


def mvs_context(ci, s, ncols):
    """Where an enumerated token string s is put relative to well-formed record text of ncols columns."""
    r1, r2 = mvs_line(ncols, 0), mvs_line(ncols, 1)
    fill = ''.join(' ' + t for t in MVS_TOKS[2][:max(0, ncols - 2)])     # 'B: x' + fill has exactly ncols tokens
    if ci == 0:
        return s                                         # the whole value
    if ci == 1:
        return '\n ' + r1 + s                            # what follows a well-formed record
    if ci == 2:
        return '\n %s\n%s%s' % (r1, s, fill)             # s opens the second line
    if ci == 4:
        return r1 + s                                    # what follows a single record on the field line
    return '\n %s\n %s%s\n %s' % (r1, s, fill, r2)       # s inside an indented line between two records


def run_mvs_penum(ctx, case):
    """One block of the token enumeration under multivalued names: one context, one prefix, all suffixes."""
    k, ci = case['k'], case['c']
    prefix = ''.join(TOKENS[i] for i in case['prefix'])
    slen = k - len(case['prefix'])
    pairs = mv_pairs()
    n = sum(case['prefix']) * 7 + k + ci * 3
    first = True
    for suffix in itertools.product(TOKENS, repeat=slen):
        s = prefix + ''.join(suffix)
        n += 1
        if k > MVS_ENUM_FULL[ctx.tier] and n % MVS_ENUM_THIN[ctx.tier][0 if ci in (1, 4) else 1]:
            continue
        if not first:
            ctx.evaluations += 1
        first = False
        ctx.count('mvs:enum-len:%d' % k)
        h = zlib.crc32(s.encode('utf-8')) + ci
        cls, x = pairs[(h >> 4) % len(pairs)]
        st = mk_mvstr(cls, x, mvs_context(ci, s, mv_ncols(cls, x)), h >> 9, MVS_ROUTES[n % len(MVS_ROUTES)])
        run_sub(ctx, {'kind': 'sub', 'wl': 'mvs-tokens', 'steps': [st]})


def mvs_mutated(r, ncols):
    """Well-formed record text with one or two of the defects a dump-time formatter has to catch."""
    lines = [mvs_line(ncols, j) for j in range(r.choice([1, 2, 2, 3]))]
    lines = [' ' + l for l in lines]
    if r.random() < 0.7:
        lines.insert(0, '')
    else:
        lines[0] = lines[0][1:]
    bound = r.choice(['\n', '\n', '\n', '\r\n', '\r'])
    tail = ''
    for _ in range(r.choice([1, 1, 2])):
        m = r.randrange(10)
        at = r.randint(1, len(lines))
        if m == 0:
            tail = r.choice(['\n', '\n', '\r\n', '\r', '\n\n', '\n \n', '\n '])
        elif m == 1:
            lines.insert(at, '')
        elif m == 2:
            j = r.randrange(1, len(lines)) if len(lines) > 1 else 0
            lines[j] = lines[j].lstrip(' ')
        elif m == 3:
            lines.insert(at, mvs_line(ncols, r.randrange(3), MVS_INJ))
        elif m == 4:
            lines.insert(at, r.choice([' ', '\t', '  ', ' \t ']))
        elif m == 5:
            lines.insert(at, r.choice(INJECT + SPECIAL_LINES))
        elif m == 6:
            lines.insert(at, ' ' + r.choice(INJECT + SPECIAL_LINES))
        elif m == 7:
            j = r.randrange(len(lines))
            cut = r.randint(0, len(lines[j]))
            lines[j] = lines[j][:cut] + r.choice(['\r', '\r', '\r\n', '\t', '\r ']) + r.choice(['', 'B: x ', 'Inj: ']) \
                + lines[j][cut:]
        elif m == 8:
            j = r.randrange(len(lines))
            lines[j] = lines[j].replace(' ', '\t')
        else:
            lines.insert(at, mvs_line(ncols, r.randrange(3), MVS_INJ) + r.choice([' more', '', ':']))
    return bound.join(lines) + tail


def rand_mvs_case(r, k):
    pairs = mv_pairs()
    cls = r.choice(_SUB_PRIME_CLASSES) if r.random() < 0.5 else None         # half: every class alike; half: every pair alike
    cls, x = r.choice([p for p in pairs if cls is None or p[0] == cls])
    q = r.random()
    if q < 0.45:
        v = mvs_mutated(r, mv_ncols(cls, x))
    elif q < 0.75:
        v = rand_value(r)
    elif q < 0.87:
        v = ws_value(r)
    else:
        v = r.choice(GOOD_X + HOSTILE_X + WS_VALUES)
    st = mk_mvstr(cls, x, v, k + r.randint(0, 59), r.choice(MVS_ROUTES), r.randrange(MVS_LAYOUTS))
    st['build'] = r.choice(MVS_BUILDS)
    return {'kind': 'sub', 'wl': 'mvs-hist', 'steps': [st]}


# ---- execution

def do_prime(ctx, st, idx=0, sink=None, depth='none'):
    """A class in which the name is multivalued handles it.  Nothing is demanded; any exception is only counted -
    except that a STRING payload the class accepted and was willing to dump() is re-read like every 'mvstr' step."""
    from ..core import MonitorViolation
    clsname, name, how = st['cls'], st['name'], st['how']
    cls = sub_cls(clsname)
    kind = 'lines' if 'lines' in st else ('recs' if 'recs' in st else 'string')
    ctx.count('sub:prime')
    ctx.count('sub:prime:%s:%s' % (how, kind))
    ctx.count('sub:prime-cls:' + clsname)
    PRIMED.add(name.lower())

    def attempt(what, fn, *a, **kw):
        # every action on its own: what the class refuses (copy() of record lists, dump of a string under a
        # multivalued name ...) is only counted, and the remaining actions still run
        try:
            return fn(*a, **kw)
        except MonitorViolation:
            raise
        except Exception as e:
            ctx.count('sub:prime-raised:%s:%s' % (what, type(e).__name__))
            return None

    if how == 'parse':
        strict = None if st.get('ws', True) else WS_FALSE
        src = parse_source(ctx, st['lines'], st['form'])
        if st.get('api') == 'ctor':
            objs = [attempt('parse', cls, src, strict=strict)]
        else:
            objs = attempt('parse', lambda: list(cls.iter_paragraphs(src, strict=strict))) or []
        for o in objs:
            if o is not None:
                attempt('dump', o.dump)
                attempt('copy', o.copy)
        return
    if kind == 'recs':
        keys = DECL[clsname].get(name.lower())
        if keys is None:
            ctx.count('sub:prime-skipped:not-declared-by-class')
            return
        val = make_records(keys, st)
    else:
        val = st['v']
    if how == 'dict':
        d = attempt('assign', cls, {'Source': 'src', name: val, 'Version': '1.0-1'})
    else:
        d = cls()
        d['Source'] = 'src'
        if how == 'update':
            attempt('assign', d.update, {name: val})
        else:
            attempt('assign', d.__setitem__, name, val)
        d['Version'] = '1.0-1'
    if d is None:
        return
    text = attempt('dump', d.dump)
    if text is not None:
        attempt('reread', lambda: list(cls.iter_paragraphs(text)))
    c = attempt('copy', d.copy)
    if kind == 'string' and sink is not None:
        # the string payload is followed by 'Version': judged as a string under a multivalued name
        sel = (zlib.crc32(val.encode('utf-8')) >> 3) + idx
        for o, tag in ((d, 'prime:' + how), (c, 'prime:copy-object')):
            if o is not None and (o is d or text is None or idx % 2):
                ctx.count('mvs:prime-step-judged')
                judge_mv_object(ctx, o, clsname, name, val, ['source', name.lower(), 'version'],
                                'dump of the %s built by %s with the string under %r' % (clsname, how, name), sink,
                                depth, sel, tag)


def build_obj(cls, pairs, build):
    if build == 'dict':
        return cls(dict(pairs))
    d = cls()
    for name, val in pairs:
        d[name] = val
    if build == 'parse':
        return cls(d.dump())
    if build == 'parse-stream':
        return cls(io.StringIO(d.dump()))
    return d


def do_judge(ctx, st, idx, sink, depth, in_case):
    """One assignment of a string to an ORDINARY field of a subclass paragraph, judged as on the assignment side."""
    from ..core import MonitorViolation
    from .. import contracts
    clsname, target, v = st['cls'], st['target'], st['v']
    route, build = st.get('route', 'setitem'), st.get('build', 'assign')
    cls = sub_cls(clsname)
    tl = target.lower()
    if not ordinary(clsname, target):
        ctx.count('sub:skipped:target-declared-multivalued-by-class')
        return
    pairs = []
    for name, val in st['fields']:
        if isinstance(val, dict):
            keys = DECL[clsname].get(name.lower())
            if keys is None or name.lower() not in MV_MODEL[clsname]:
                ctx.count('sub:skipped:records-for-undeclared-field')
                continue
            val = make_records(keys, val)
            ctx.count('sub:judge-with-own-multivalued-neighbour')
        elif not ordinary(clsname, name):
            ctx.count('sub:skipped:neighbour-declared-multivalued-by-class')
            continue
        pairs.append((name, val))
    present = any(n.lower() == tl for n, _ in pairs)
    if route == 'setdefault' and present:
        route = 'setitem'                # setdefault on a present field assigns nothing
    if any(not isinstance(val, str) for _, val in pairs) and (route in ('ctor', 'copy') or build == 'dict'):
        # the classes cannot be constructed from a mapping that holds record lists (copy() does just that): such a
        # paragraph is built by assignment and assigned to through item assignment
        ctx.count('sub:records-neighbour:route-or-build-replaced')
        route = 'setitem' if route in ('ctor', 'copy') else route
        build = 'assign' if build == 'dict' else build
    dfx = model.defects(v)
    where = '%s paragraph (built by %s from %r)' % (clsname, build, pairs)
    ctx.count('sub:judge')
    ctx.count('sub:judge:' + clsname)
    ctx.count('sub:route:' + route)
    ctx.count('sub:build:' + build)
    elsewhere = tl in DISPLAY
    if elsewhere:
        ctx.count('sub:judge:name-multivalued-in-another-class')
        ctx.count('sub:judge-x:' + tl)
        if tl in PRIMED:
            ctx.mon('M.cross-class')
            if dfx:
                ctx.count('sub:hostile-after-prime-of-name')
            if tl in in_case:
                ctx.count('sub:judge-after-prime-in-same-case')
                if in_case[tl] == v:
                    ctx.count('sub:judge-same-string-as-prime')
        else:
            ctx.count('sub:judge-before-any-prime-of-name')
    if model.has_boundary(v):
        ctx.nontrivial(case={'cls': clsname, 'target': target, 'v': v},
                       key=hashlib.sha1(('sub\0%s\0%s\0%s' % (clsname, tl, v)).encode('utf-8')).hexdigest())
    if route == 'ctor':
        items = []
        for name, val in pairs:
            items.append((name, v if name.lower() == tl else val))
        if not present:
            items.append((target, v))
        try:
            K_ACTIVE[0] = True
            d = cls(dict(items))
        except MonitorViolation as e:
            contracts.PENDING[:] = []
            sink(e.key, e.msg)
            return
        except Exception as e:
            t = type(e).__name__
            ctx.count('sub:rejected')
            ctx.extra['ctor_reject_types'][t] = ctx.extra['ctor_reject_types'].get(t, 0) + 1
            if not dfx:
                ctx.extra['rejected_without_stated_defect'] += 1
            return
        finally:
            K_ACTIVE[0] = False
    else:
        try:
            d = build_obj(cls, pairs, build)
            before = (list(d), d.dump())
        except MonitorViolation:
            raise
        except Exception as e:           # an ordinary paragraph the class cannot build / dump: not this property
            ctx.count('sub:build-raised:' + type(e).__name__)
            return
        try:
            K_ACTIVE[0] = True
            if route == 'update':
                d.update({target: v})
            elif route == 'setdefault':
                d.setdefault(target, v)
            else:
                d[target] = v
        except MonitorViolation as e:
            contracts.PENDING[:] = []
            sink(e.key, e.msg)
            return
        except Exception as e:
            K_ACTIVE[0] = False
            ctx.count('sub:rejected')
            if not isinstance(e, ValueError):
                sink('rejection-not-ValueError/subclass-layer',
                     'assigning %r to %r of a %s raised %s (%s), not ValueError' % (v, target, where, type(e).__name__, e))
            if not dfx:
                ctx.extra['rejected_without_stated_defect'] += 1
                ctx.count('sub:rejected-without-stated-defect')
            ctx.mon('M.unchanged')
            try:
                after = (list(d), d.dump())
            except Exception as e2:
                after = ('<list/dump raised %s: %s>' % (type(e2).__name__, e2),)
            if after != before:
                sink('rejected-assignment-changed-paragraph/subclass-layer',
                     'assigning %r to %r of a %s was rejected (%s) but list/dump changed: %r -> %r'
                     % (v, target, where, type(e).__name__, before, after))
            return
        finally:
            K_ACTIVE[0] = False
    # ---- accepted
    ctx.count('sub:accepted')
    ctx.count('sub:accepted:' + clsname)
    ctx.mon('M.must-reject')
    ctx.mon('M.sub.must-reject')
    if dfx:
        try:
            shown = d.dump()
        except Exception as e:
            shown = '<dump raised %s>' % type(e).__name__
        sink('defective-value-accepted/%s/subclass-layer' % dfx[0],
             'value %r has the stated defect(s) %s but assigning it to %r (%s) of a %s was accepted; dump is %r'
             % (v, '+'.join(dfx), target, route, where, shown))
        return
    sel = (zlib.crc32(v.encode('utf-8')) >> 3) + idx
    objs = [(d, 'dump of the %s' % where)]
    if route == 'copy':
        try:
            objs.append((d.copy(), 'dump of copy() of the %s' % where))
            ctx.count('sub:copy-checked')
        except Exception as e:
            ctx.count('sub:copy-raised:' + type(e).__name__)      # no must-accept demand
    for o, what in objs:
        keys = list(o)
        values = [x for x in (o[k] for k in keys) if isinstance(x, str)]
        followed = bool(keys) and keys[-1].lower() != tl
        check_reread(ctx, o, v, None, what=what, depth=depth, sel=sel, values=values, suffix='/subclass-layer',
                     sub=clsname, sink=sink, followed=followed)


def judge_mv_object(ctx, o, clsname, name, v, assigned, what, sink, depth, sel, tag):
    """STRING UNDER A MULTIVALUED NAME, after the library accepted the assignment: dump() may raise (the library's
    choice, counted); the text it returns must re-read as ONE paragraph with exactly the names of the paragraph."""
    from ..core import MonitorViolation
    ctx.count('mvs:object')
    try:
        text = o.dump()
    except MonitorViolation:
        raise
    except Exception as e:
        ctx.count('mvs:outcome:dump-raised')
        ctx.count('mvs:dump-raised:' + type(e).__name__)
        ctx.count('mvs:dump-raised:via:' + tag)
        # the other way of writing a paragraph out: dump(fd).  If THAT completes, what it wrote is judged as well.
        try:
            fd = io.StringIO()
            o.dump(fd, text_mode=True)
            text = fd.getvalue()
        except MonitorViolation:
            raise
        except Exception:
            ctx.count('mvs:dump-to-file-object-raised-too')
            return
        ctx.count('mvs:dump-to-file-object-wrote-text-although-dump-raised')
        what += ' [dump() raised %s; text written by dump(fd, text_mode=True)]' % type(e).__name__
        depth = 'none'           # str / bytes forms only: the file forms would call dump(fd) in its other modes
    else:
        ctx.count('mvs:outcome:dump-text')
        ctx.count('mvs:dump-text:' + clsname)
        ctx.count('mvs:dump-text:via:' + tag)
    if model.defects(v):
        ctx.count('mvs:dump-text:value-with-stated-defect')       # e.g. normalised into records by the constructor
    keys = list(o)
    got = [k.lower() for k in keys]
    extra = [k for k in keys if k.lower() not in assigned]
    if extra:
        ctx.count('mvs:adds-field-at-assignment')
        sink('accepted-value-adds-field/at-assignment/string-under-multivalued-name',
             '%s: after assigning the string %r to the multivalued field %r the paragraph holds the names %r; %r were '
             'never assigned (assigned: %r); dump is %r' % (what, v, name, keys, extra, assigned, text))
        return
    if got != assigned:
        ctx.count('mvs:names-held-differ-from-names-assigned')    # a dropped name: not judged (statement is silent)
    values = [x for x in (o[k] for k in keys) if isinstance(x, str)] + [v]
    ctx.mon('M.mvstr')
    check_reread(ctx, o, v, None, what=what, depth=depth, sel=sel, values=values,
                 suffix='/string-under-multivalued-name', sub=clsname, sink=sink,
                 followed=bool(keys) and keys[-1].lower() != name.lower(), mv=True, text=text)


def do_mvstr(ctx, st, idx, sink, depth):
    """A STRING is assigned to a field that IS multivalued in the class, followed by at least one more field.
    Refusing at assignment or at dump() is the library's choice; what dump() returns is judged by re-reading."""
    from ..core import MonitorViolation
    from .. import contracts
    clsname, name, v = st['cls'], st['name'], st['v']
    route, build = st.get('route', 'setitem'), st.get('build', 'assign')
    nl = name.lower()
    ctx.count('mvs:case')
    # no domain guard is needed: "refuse, or write something that re-reads as this paragraph" holds for ANY field
    ctx.count('mvs:name:' + ('declared-multivalued' if nl in DECL[clsname] else 'not-declared-multivalued'))
    cls = sub_cls(clsname)
    PRIMED.add(nl)
    pairs, recs_before = [], False
    for n, val in st.get('before') or []:
        if isinstance(val, dict):
            keys = DECL[clsname].get(n.lower())
            if keys is None or n.lower() not in MV_MODEL[clsname]:
                ctx.count('mvs:skipped:records-for-undeclared-field')
                continue
            # the constructor cannot take record lists from a mapping: there the records travel as well-formed text
            val = _recs_text(val, len(keys)) if route == 'ctor' else make_records(keys, val)
            recs_before = recs_before or route != 'ctor'
        elif not ordinary(clsname, n):
            ctx.count('mvs:skipped:neighbour-declared-multivalued-by-class')
            continue
        pairs.append((n, val))
    after = [(n, val) for n, val in st.get('after') or [] if ordinary(clsname, n) and n.lower() != nl]
    present = any(n.lower() == nl for n, _ in pairs)
    if route == 'setdefault' and present:
        route = 'setitem'
    if not present and not after:
        after = [('X-After', 'z')]            # a string under a multivalued name is always followed by a field
    ctx.count('mvs:cls:' + clsname)
    ctx.count('mvs:pair:%s:%s' % (clsname, nl))
    ctx.count('mvs:route:' + route)
    ctx.count('mvs:build:' + (build if pairs and route != 'ctor' else 'n/a'))
    ctx.count('mvs:layout:' + ('replace-records' if present else 'new') + (':first' if not pairs or pairs[0][0].lower() == nl
                                                                         else ''))
    if st.get('shape'):
        ctx.count('mvs:shape:' + st['shape'].split(':')[0].split('+')[0])
        ctx.count('mvs:shape-route:%s:%s' % (st['shape'], 'assign' if route in ('setitem', 'update', 'setdefault') else route))
    dfx = model.defects(v)
    for what_d in dfx:
        ctx.count('mvs:value:' + what_d)
    if not dfx:
        ctx.count('mvs:value:no-stated-defect')
    if model.blank_continuation(v):
        ctx.count('mvs:value:blank-continuation')
    if '\r' in v:
        ctx.count('mvs:value:cr')
    if model.has_boundary(v):
        ctx.nontrivial(case={'cls': clsname, 'multivalued': name, 'v': v},
                       key=hashlib.sha1(('mvs\0%s\0%s\0%s' % (clsname, nl, v)).encode('utf-8')).hexdigest())
    where = '%s paragraph (%s; fields before %r, after %r)' % (clsname, route, pairs, after)
    if route == 'ctor':
        items, seen = [], False
        for n, val in pairs:
            if n.lower() == nl:
                items.append((n, v))
                seen = True
            else:
                items.append((n, val))
        if not seen:
            items.append((name, v))
        items.extend(after)
        assigned = [n.lower() for n, _ in items]
        try:
            d = cls(dict(items))
            if st.get('dak'):
                d.size_field_behavior = 'dak'
        except MonitorViolation:
            raise
        except Exception as e:
            ctx.count('mvs:outcome:assign-raised')
            ctx.count('mvs:assign-raised:ctor:' + type(e).__name__)
            return
    else:
        try:
            d = build_obj(cls, pairs, build if pairs else 'assign')
            if st.get('dak'):
                d.size_field_behavior = 'dak'
            before = (list(d), d.dump())
        except MonitorViolation:
            raise
        except Exception as e:               # well-formed records and ordinary values only: not this property
            ctx.count('mvs:outcome:build-raised')
            ctx.count('mvs:build-raised:' + type(e).__name__)
            return
        assigned = [n.lower() for n in before[0]]
        if nl not in assigned:
            assigned.append(nl)
        try:
            K_ACTIVE[0] = True
            if route == 'update':
                d.update({name: v})
            elif route == 'setdefault':
                d.setdefault(name, v)
            else:
                d[name] = v
        except MonitorViolation as e:
            contracts.PENDING[:] = []
            sink(e.key + '/string-under-multivalued-name', e.msg)
            return
        except Exception as e:
            K_ACTIVE[0] = False
            ctx.count('mvs:outcome:assign-raised')
            ctx.count('mvs:assign-raised:%s:%s' % (route, type(e).__name__))
            ctx.mon('M.unchanged')
            ctx.mon('M.mvstr.unchanged')
            try:
                now = (list(d), d.dump())
            except Exception as e2:
                now = ('<list/dump raised %s: %s>' % (type(e2).__name__, e2),)
            if now != before:
                sink('rejected-assignment-changed-paragraph/string-under-multivalued-name',
                     'assigning the string %r to the multivalued field %r of a %s was refused (%s) but list/dump changed: '
                     '%r -> %r' % (v, name, where, type(e).__name__, before, now))
            return
        finally:
            K_ACTIVE[0] = False
        try:
            for n, val in after:
                d[n] = val
                if n.lower() not in assigned:
                    assigned.append(n.lower())
        except MonitorViolation:
            raise
        except Exception as e:               # an ordinary value to an ordinary field refused: not this class
            ctx.count('mvs:outcome:later-field-raised')
            ctx.count('mvs:later-field-raised:' + type(e).__name__)
            return
    ctx.count('mvs:outcome:assignment-accepted')
    sel = (zlib.crc32(v.encode('utf-8')) >> 3) + idx
    objs = [(d, 'dump of the %s' % where, route)]
    if route == 'copy':
        try:
            objs.append((d.copy(), 'dump of copy() of the %s' % where, 'copy-object'))
            ctx.count('mvs:copy-made')
        except MonitorViolation:
            raise
        except Exception as e:
            ctx.count('mvs:copy-raised:' + type(e).__name__)      # no demand
    for o, what, tag in objs:
        judge_mv_object(ctx, o, clsname, name, v, assigned, what, sink, depth, sel, tag)


def exec_step(ctx, st, idx, sink, depth, in_case):
    if st['op'] == 'prime':
        do_prime(ctx, st, idx, sink, depth)
        if 'v' in st:
            in_case[st['name'].lower()] = st['v']
        else:
            in_case.setdefault(st['name'].lower(), None)
    elif st['op'] == 'mvstr':
        do_mvstr(ctx, st, idx, sink, depth)
        in_case[st['name'].lower()] = st['v']
    else:
        do_judge(ctx, st, idx, sink, depth, in_case)


def step_depth(ctx, st):
    if ctx.replay:
        return 'all'
    if st.get('depth'):
        return st['depth']
    if 'v' not in st:
        return 'none'
    v = st['v']                      # judge / mvstr steps, and prime steps with a string payload
    if model.blank_continuation(v):
        return 'ws'
    h = zlib.crc32(v.encode('utf-8'))
    if '\r' in v:
        return 'some' if h % 2 else 'one'
    return 'one' if h % 2 else 'none'


_STANDALONE = ('import sys, json\n'
               'from vp import core\n'
               'core.bootstrap_repo()\n'
               'from vp.props import c08\n'
               'sys.stdout.write("RESULT " + json.dumps(c08.standalone(json.load(sys.stdin))))\n')


def standalone(case):
    """Run one 'sub' case as the only thing this interpreter does (what --replay does): [key, message] or None."""
    from ..core import Ctx
    ctx = Ctx(PROP, 'quick', 0, 0, 1, replay=True)
    ctx.extra['ctor_reject_types'] = {}
    ctx.extra['rejected_without_stated_defect'] = 0
    got = []
    try:
        run_sub(ctx, case, collect=got)
    finally:
        finish(ctx)
        ctx.cleanup()
    return list(got[0]) if got else None


def fails_standalone(case):
    """[key, message], None (passes) or 'unknown'."""
    import json
    import subprocess
    import sys
    from .. import core
    try:
        p = subprocess.run([sys.executable, '-B', '-c', _STANDALONE], input=json.dumps(case).encode('ascii'),
                           stdout=subprocess.PIPE, stderr=subprocess.DEVNULL, timeout=120, cwd=core.VERIF)
        out = p.stdout.decode('utf-8', 'replace')
        if p.returncode != 0 or 'RESULT ' not in out:
            return 'unknown'
        return json.loads(out.split('RESULT ', 1)[1])
    except Exception:
        return 'unknown'


def report_sub(ctx, case, i, probs, earlier):
    """Pick the witness.  The library may keep state between classes and objects and this process has handled many:
    a witness is only worth something if it fails from a fresh interpreter.  Candidates, smallest first: the judged
    step alone; the case up to that step; the same with the last steps this process executed before as prelude."""
    step = case['steps'][i]
    single = {'kind': 'sub', 'wl': 'witness', 'steps': [step]}
    upto = {'kind': 'sub', 'wl': 'witness', 'steps': case['steps'][:i + 1]}
    with_prelude = dict(upto, prelude=earlier[-PRELUDE_STEPS:]) if earlier else None
    hist = '/depends-on-what-other-classes-or-objects-did-before'
    cands = [(single, '')]
    if i:
        cands.append((upto, hist))
    if with_prelude is not None:
        cands.append((with_prelude, hist))
    fallback = with_prelude or upto
    note, witness, suffix = None, fallback, ''
    from ..core import MAX_WITNESS_PER_KEY
    if all(ctx.viol_count[key + suf] >= MAX_WITNESS_PER_KEY for key, _ in probs for suf in ('', hist)):
        for key, msg in probs:           # enough witnesses of these mechanisms are on record: count only
            ctx.violation(key + suffix, msg, witness)
        return
    if CONFIRM_BUDGET[0] <= 0:
        note = ' [witness not re-executed in a fresh interpreter: confirmation budget of this shard used up]'
    else:
        CONFIRM_BUDGET[0] -= 1
        note = (' [NOT reproduced from a fresh interpreter, neither alone nor with the preceding steps of this process '
                'as prelude: the outcome depends on older history of this process]')
        suffix = hist
        for cand, suf in cands:
            got = fails_standalone(cand)
            if got == 'unknown':
                note, suffix = ' [fresh-interpreter confirmation of the witness did not run]', ''
                break
            if got is not None:
                witness, suffix = cand, suf
                note = (' [confirmed from a fresh interpreter: %s]'
                        % ('the judged step alone' if cand is single else
                           'only together with the steps executed before it (the step alone passes)'))
                break
    for key, msg in probs:
        ctx.violation(key + suffix, 'step %d of the history: %s%s' % (i, msg, note), witness)


def run_sub(ctx, case, collect=None):
    snapshot_decl()
    drop = lambda key, msg: None
    in_case = {}
    for st in case.get('prelude') or []:       # witnesses only: what the process had executed before (context, unjudged)
        exec_step(ctx, st, 0, drop, 'none', in_case)
    wl = case.get('wl', 'hist')
    ctx.count('sub:case')
    ctx.count('sub:case:' + wl)
    earlier = list(SUBLOG)
    if len(case['steps']) > 1 and any(s['op'] == 'prime' for s in case['steps']):
        ctx.count('sub:cross-class-history')
        if case['steps'][0]['op'] == 'judge':
            ctx.count('sub:cross-class-history:judge-first')
        else:
            ctx.count('sub:cross-class-history:prime-first')
    for i, st in enumerate(case['steps']):
        if i:
            ctx.evaluations += 1
        probs = []
        exec_step(ctx, st, i, lambda key, msg: probs.append((key, msg)), step_depth(ctx, st), in_case)
        if collect is None and not ctx.replay:
            SUBLOG.append(st)
            if len(SUBLOG) > SUBLOG_KEEP:
                del SUBLOG[:len(SUBLOG) - SUBLOG_KEEP]
        if probs:
            if collect is not None:
                collect.extend(probs)
            elif ctx.replay:
                for key, msg in probs:
                    ctx.violation(key, 'step %d of the history: %s' % (i, msg), case)
            else:
                report_sub(ctx, case, i, probs, earlier)
            return


# ---------------------------------------------------------------------------
# MAPPING-PROTOCOL ROUTES WITH MAPPING OBJECTS AS THE SOURCE (case kind 'via'): the value reaches the paragraph through
# p.update(other) / p.update(other, **kw) / cls(other) / p |= other / p | other, where `other` is a mapping OBJECT - a
# library mapping that never validated the string it holds (a bare Deb822Dict, a Deb822 built without validation, a
# Dsc / Changes / Release ... holding it under a name that is multivalued THERE), a standard-library wrapper
# (OrderedDict, MappingProxyType, UserDict, ChainMap), an object with keys() and __getitem__ only, an iterator of
# pairs.  Whatever the route and whatever the TYPE of the source: a value with a stated defect is refused, or - if the
# library accepts - every value the paragraph holds is free of the stated defects and the dump re-reads to ONE
# paragraph with the names the paragraph holds.

VIA_ROUTES = ['update', 'update-kw', 'ctor', 'ior', 'or']
VIA_SOURCES = ['dict', 'Deb822Dict', 'Deb822-parsed', 'Deb822-raw', 'mvobj', 'OrderedDict', 'MappingProxyType', 'UserDict',
               'ChainMap', 'keys-getitem', 'pairs-iter']
VIA_NO_ITEMS = ('keys-getitem', 'pairs-iter')     # no .items(): the constructors read such an object as a sequence of LINES
# the library certainly supports these source types (its own mappings, dict and its subclass): there a refusal must be
# ValueError; for the other source types the exception type is the library's choice
VIA_TYPE_JUDGED = ('dict', 'Deb822Dict', 'Deb822-parsed', 'Deb822-raw', 'mvobj', 'OrderedDict')
VIA_COMBOS = [(r_, s_) for r_ in VIA_ROUTES for s_ in VIA_SOURCES if not (r_ == 'ctor' and s_ in VIA_NO_ITEMS)]
# the seeded and the token workload pick a combination from this list: the operators (which the present tree does not
# offer on paragraphs) weigh 1, update 3, update with keywords 2, the constructor 2
VIA_COMBOS_W = [c_ for c_ in VIA_COMBOS for _ in range({'update': 3, 'update-kw': 2, 'ctor': 2}.get(c_[0], 1))]
VIA_RANDOM_TOTAL = {'quick': 1800, 'thorough': 120000}
VIA_ENUM_MAXLEN = {'quick': 3, 'thorough': 5}
VIA_ENUM_THIN = {'quick': 1, 'thorough': 3}          # the longest length: every N-th string

# floors of this class (same rule: ~50% of the minimum measured over seeds 0-3 quick / seed 0 thorough; the enumeration and
# case counters are deterministic and must be complete): a run that never drives a (route, source type, class)
# combination, never gets a refusal or a stored multi-line value out of these routes, or never re-reads one, is
# INCONCLUSIVE.  No floors on via:outcome:operator-not-supported / result-not-a-paragraph / via:refused:* /
# via:partly-applied-before-refusal (the library's choice).
_VIA_FLOORS = {
    'quick': {'monitors': {'M.via': 4255, 'M.reread-via': 7400, 'M.via.must-reject': 1200, 'M.via.unchanged': 850},
              'counters': {'via:case': 4255, 'via:case:tokens': 1111, 'via:enum-len:3': 1000, 'via:enum-len:2': 100,
                           'via:route:update': 670, 'via:route:update-kw': 490, 'via:route:ctor': 400, 'via:route:ior': 245,
                           'via:route:or': 260, 'via:hot-in:kw': 240, 'via:source-keys:one': 600,
                           'via:source-keys:several': 1450, 'via:value:stated-defect': 790,
                           'via:value:no-stated-defect': 1300, 'via:outcome:refused': 530, 'via:outcome:accepted': 1000,
                           'via:value-stored-multiline': 760, 'via:accepted:update': 450, 'via:accepted:update-kw': 310,
                           'via:accepted:ctor': 255, 'via:ws-only-continuation-followed': 330,
                           'via:reread-form:str': 3000, 'via:reread-form:bytes': 1250, 'via:reread-form:stringio': 470,
                           'via:reread-form:bytesio': 470, 'via:reread-form:lines-nl': 430, 'via:reread-form:lines-bare': 470,
                           'via:reread-form:lines-nl-seq': 130, 'via:reread-form:lines-bare-seq': 120,
                           'via:reread-form:textfile': 490, 'via:reread-form:binfile': 485},
              'per-class': {'via:cls:%s': 250, 'via:accepted:cls:%s': 120, 'via:reread:%s:iter': 550,
                            'via:reread:%s:ctor': 165},
              'per-src': {'via:src:%s': 150, 'via:accepted:src:%s': 65}, 'per-mvobj-class': 12,
              'per-combo': {'update': 4, 'update-kw': 4, 'ctor': 4, 'ior': 2, 'or': 2}},
    'thorough': {'monitors': {'M.via': 188183, 'M.reread-via': 350000, 'M.via.must-reject': 56000, 'M.via.unchanged': 37000},
                 'counters': {'via:case': 188183, 'via:case:tokens': 44445, 'via:enum-len:5': 33334, 'via:enum-len:4': 10000,
                              'via:enum-len:3': 1000, 'via:route:update': 31000, 'via:route:update-kw': 21000,
                              'via:route:ctor': 17000, 'via:route:ior': 12000, 'via:route:or': 12000, 'via:hot-in:kw': 10500,
                              'via:source-keys:one': 27000, 'via:source-keys:several': 66000,
                              'via:value:stated-defect': 28000, 'via:value:no-stated-defect': 65000,
                              'via:outcome:refused': 21000, 'via:outcome:accepted': 48000,
                              'via:value-stored-multiline': 39000, 'via:accepted:update': 21000,
                              'via:accepted:update-kw': 14500, 'via:accepted:ctor': 12000,
                              'via:ws-only-continuation-followed': 16500,
                              'via:reread-form:str': 136000, 'via:reread-form:bytes': 57000, 'via:reread-form:stringio': 24000,
                              'via:reread-form:bytesio': 24000, 'via:reread-form:lines-nl': 24000,
                              'via:reread-form:lines-bare': 24000, 'via:reread-form:lines-nl-seq': 6100,
                              'via:reread-form:lines-bare-seq': 6200, 'via:reread-form:textfile': 24000,
                              'via:reread-form:binfile': 24000},
                 'per-class': {'via:cls:%s': 11500, 'via:accepted:cls:%s': 6000, 'via:reread:%s:iter': 29000,
                               'via:reread:%s:ctor': 9000},
                 'per-src': {'via:src:%s': 6800, 'via:accepted:src:%s': 3300}, 'per-mvobj-class': 690,
                 'per-combo': {'update': 56, 'update-kw': 56, 'ctor': 56, 'ior': 56, 'or': 56}},
}
for _tier, _f in _VIA_FLOORS.items():
    FLOORS[_tier]['monitors'].update(_f['monitors'])
    FLOORS[_tier]['counters'].update(_f['counters'])
    for _pat, _n in _f['per-class'].items():
        FLOORS[_tier]['counters'].update((_pat % _c, _n) for _c in _SUB_CLASSES)
    for _pat, _n in _f['per-src'].items():
        FLOORS[_tier]['counters'].update((_pat % _s, _n) for _s in VIA_SOURCES)
    FLOORS[_tier]['counters'].update(('via:mvobj:' + _c, _f['per-mvobj-class']) for _c in _SUB_PRIME_CLASSES)
    FLOORS[_tier]['counters'].update(('via:combo:%s:%s:%s' % (_r, _s, _c), _f['per-combo'][_r])
                                     for _r, _s in VIA_COMBOS for _c in _SUB_CLASSES)


class KeysAndGetitem(object):
    """The smallest thing update() takes as a mapping: keys() and __getitem__, nothing else (no items / iteration / len)."""

    def __init__(self, pairs):
        self._order = [k for k, _ in pairs]
        self._d = dict(pairs)

    def keys(self):
        return list(self._order)

    def __getitem__(self, key):
        return self._d[key]


def via_values():
    return HOSTILE_X + GOOD_X + WS_VALUES


def via_xnames(cls):
    """[(class A, lower-case name X)]: X is multivalued in A and an ordinary text field in cls (reference table)."""
    return [(a, x) for a in _SUB_PRIME_CLASSES for x in sorted(MV_MODEL[a]) if x not in MV_MODEL[cls]]


def mk_via(cls, route, src, v, k):
    """One judged case: the string v travels to a paragraph of class cls through `route`, carried by a source object of
    kind `src`.  k selects layout, target name, what else the source holds and the flavour of the source object."""
    pool = [n for n in CLASS_FIELDS[cls] if n.lower() not in MV_MODEL[cls] and n.lower() not in DISPLAY]
    f0, f1, f2 = pool[0], pool[1], pool[2]
    srccls = None
    xs = via_xnames(cls)
    if src == 'mvobj' or k % 3 == 0:
        srccls, x = xs[(k // 3) % len(xs)]
        tname, target = spell(x, k), spell(x, k + 1)
        if src != 'mvobj':
            srccls = None
    elif k % 5 == 0:
        tname = target = 'X-New-Field'
    else:
        tname, target = f1, (f1, f1.lower(), f1.upper(), f1)[k % 4]
    lay = (k // 2) % 4
    if lay == 0:
        fields = [[f0, 'p1'], [tname, 'old'], [f2, 'z9']]             # middle, replace
    elif lay == 1:
        fields = [[f0, 'p1'], [f2, 'z9\n z10']]                       # new, last
    elif lay == 2:
        fields = [[tname, 'old'], [f0, 'p1\n .\n p2']]                # first, replace
    else:
        fields = []                                                   # sole, new
    shape = ((k // 8) % 5) - 1                 # -1, 0: the source holds the one pair only (2 in 5)
    pre = [['X-Pre', 'b1']] if shape in (1, 3) else []
    post = ([[f0, 'p2']] if shape == 2 else [['X-Post', 'after\n more']]) if shape in (2, 3) else []
    hot = [target, v]
    case = {'kind': 'via', 'cls': cls, 'route': route, 'src': src, 'target': target, 'v': v, 'variant': k // 32}
    if srccls:
        case['srccls'] = srccls
    if route == 'ctor':
        # the source holds the whole paragraph
        items, seen = [], False
        for n, val in fields:
            if n.lower() == target.lower():
                items.append(hot)
                seen = True
            else:
                items.append([n, val])
        if not seen:
            items.append(hot)
        if post and post[0][0].lower() not in [n.lower() for n, _ in items]:
            items = items + post
        case.update(fields=[], items=pre + items, kw=[])
    elif route == 'update-kw' and (k // 16) % 2:
        # the hostile string travels in the keyword arguments, the source object holds ordinary values (or nothing)
        case.update(fields=fields, items=pre + post if src != 'mvobj' else pre + [[target, 'ok']],
                    kw=[hot] if src != 'mvobj' else [['X-Kw', v]])
        if src == 'mvobj':
            case['target'] = 'X-Kw'
    else:
        case.update(fields=fields, items=pre + [hot] + post, kw=[['X-Kw', 'k1']] if route == 'update-kw' else [])
    return case


def via_enum_cases(quick=False):
    """Every (route, source type) x every target class x the fixed hostile / accepted / whitespace-only-continuation
    values x source shapes (quick: four values per combination, rotating)."""
    vals = via_values()
    i = 0
    for ci, cls in enumerate(SUBCLASSES):
        for ri, (route, src) in enumerate(VIA_COMBOS):
            for vi, v in enumerate(vals):
                for rep in (0, 1):
                    i += 1
                    if quick:
                        # two hostile, one accepted, one whitespace-only-continuation value per (combination, class)
                        j = ci + ri
                        pick = (j % len(HOSTILE_X), (j + 3) % len(HOSTILE_X), len(HOSTILE_X) + j % len(GOOD_X),
                                len(HOSTILE_X) + len(GOOD_X) + j % len(WS_VALUES))
                        if rep or vi not in (pick if route not in ('ior', 'or') else pick[:2]):
                            continue
                    yield mk_via(cls, route, src, v, i * 7 + rep * 13)


def rand_via_case(r, k):
    cls = r.choice(SUBCLASSES)
    route, src = r.choice(VIA_COMBOS_W)
    q = r.random()
    if q < 0.55:
        v = rand_value(r)
    elif q < 0.75:
        v = ws_value(r)
    else:
        v = r.choice(via_values())
    case = mk_via(cls, route, src, v, r.randrange(1 << 20))
    if r.random() < 0.3:
        for f in case['fields']:
            if f[1] != 'old':
                val = r.choice(NEIGHBOUR_VALUES)
                f[1] = val % k if '%d' in val else val
    return case


def run_via_penum(ctx, case):
    """One block of the token enumeration through the mapping-object routes: one prefix, all suffixes."""
    k = case['k']
    prefix = ''.join(TOKENS[i] for i in case['prefix'])
    slen = k - len(case['prefix'])
    n = sum(case['prefix']) * 7 + k
    first = True
    for suffix in itertools.product(TOKENS, repeat=slen):
        s = prefix + ''.join(suffix)
        n += 1
        if k == VIA_ENUM_MAXLEN[ctx.tier] and n % VIA_ENUM_THIN[ctx.tier]:
            continue
        if not first:
            ctx.evaluations += 1
        first = False
        ctx.count('via:enum-len:%d' % k)
        h = zlib.crc32(s.encode('utf-8'))
        route, src = VIA_COMBOS_W[(h >> 3) % len(VIA_COMBOS_W)]
        run_via(ctx, mk_via(SUBCLASSES[n % len(SUBCLASSES)], route, src, s, h >> 9), wl='tokens')


def via_source(case, cls):
    """The source object (fresh per call).  Nothing here goes through the validator of the TARGET class."""
    import collections
    import types
    from debian.deb822 import Deb822, Deb822Dict
    src, var = case['src'], case.get('variant', 0)
    pairs = [(n, val) for n, val in case['items']]
    inner = (lambda p: Deb822Dict(list(p))) if var & 1 else dict
    if src == 'dict':
        return dict(pairs)
    if src == 'Deb822Dict':
        return Deb822Dict(pairs if var & 1 else dict(pairs))
    if src == 'Deb822-parsed':
        # a paragraph whose values are pulled from a backing mapping on demand (the apt_pkg-backed kind): never validated
        return (cls if var & 1 else Deb822)(_parsed=Deb822Dict(pairs))
    if src == 'Deb822-raw':
        d = (cls if var & 1 else Deb822)()
        for n, val in pairs:
            Deb822Dict.__setitem__(d, n, val)        # the storing half of item assignment
        return d
    if src == 'mvobj':
        d = sub_cls(case['srccls'])()
        for n, val in pairs:
            d[n] = val       # under the names multivalued THERE nothing is validated; ordinary values under ordinary names
        return d
    if src == 'OrderedDict':
        return collections.OrderedDict(pairs)
    if src == 'MappingProxyType':
        return types.MappingProxyType(inner(pairs))
    if src == 'UserDict':
        return collections.UserDict(inner(pairs))
    if src == 'ChainMap':
        hot = [p for p in pairs if p[0] == case['target']]
        rest = [p for p in pairs if p[0] != case['target']]
        if not hot or not rest or var % 3 == 0:
            return collections.ChainMap(inner(pairs))
        maps = [inner(hot), inner(rest)]
        return collections.ChainMap(*(maps if var % 3 == 1 else maps[::-1]))
    if src == 'keys-getitem':
        return KeysAndGetitem(pairs)
    if src == 'pairs-iter':
        return (iter(pairs), (p for p in pairs), list(pairs), tuple([n, val] for n, val in pairs))[var % 4]
    raise ValueError('unknown source kind %r' % src)


def via_judge_object(ctx, o, case, assigned, what, depth, sel):
    """No exception: every value the paragraph holds must be free of the stated defects, no name may have appeared that
    was never assigned, and the dump must re-read as ONE paragraph with the names the paragraph holds."""
    clsname, target, v = case['cls'], case['target'], case['v']
    keys = list(o)
    held = []
    for key in keys:
        val = o[key]
        if not isinstance(val, str):
            ctx.count('via:non-str-value-held')
            continue
        held.append(val)
        dfx = model.defects(val)
        if dfx:
            ctx.violation('defective-value-accepted/%s/via-mapping' % dfx[0],
                          '%s: no exception, and the paragraph now holds %s = %r, which has the stated defect(s) %s; '
                          'fields %r' % (what, key, val, '+'.join(dfx), keys), case)
            return
    ctx.mon('M.must-reject')
    ctx.mon('M.via.must-reject')
    extra = [key for key in keys if key.lower() not in assigned]
    if extra:
        ctx.violation('accepted-value-adds-field/at-assignment/via-mapping',
                      '%s: the paragraph holds the names %r; %r were never assigned (assigned: %r)'
                      % (what, keys, extra, assigned), case)
        return
    if target.lower() in [key.lower() for key in keys] and o[target] == v:
        ctx.count('via:value-stored')
        ctx.count('via:value-stored:%s:%s' % (case['route'], case['src']))
        if model.has_boundary(v):
            ctx.count('via:value-stored-multiline')
    else:
        ctx.count('via:no-exception-but-value-not-stored-as-given')
    check_reread(ctx, o, v, case, what=what, depth=depth, sel=sel, values=held, suffix='/via-mapping', sub=clsname,
                 followed=bool(keys) and keys[-1].lower() != target.lower(), fam='via')


def run_via(ctx, case, wl=None):
    import operator
    from ..core import MonitorViolation
    from .. import contracts
    snapshot_decl()
    clsname, route, src = case['cls'], case['route'], case['src']
    target, v = case['target'], case['v']
    fields = [(n, val) for n, val in case.get('fields') or []]
    items = [(n, val) for n, val in case.get('items') or []]
    kw = [(n, val) for n, val in case.get('kw') or []]
    cls = sub_cls(clsname)
    ctx.count('via:case')
    if wl:
        ctx.count('via:case:' + wl)
    # domain guard: every name is an ordinary text field of the TARGET class (reference table and the class's own
    # declaration at start); for an 'mvobj' source the carried name must be multivalued in the SOURCE class
    names = [n for n, _ in fields + items + kw]
    if not all(ordinary(clsname, n) for n in names):
        ctx.count('via:outcome:skipped')
        ctx.count('via:skipped:name-declared-multivalued-by-target-class')
        return
    if src == 'mvobj' and not any(n.lower() in DECL[case['srccls']] and n.lower() in MV_MODEL[case['srccls']]
                                  for n, _ in items):
        ctx.count('via:outcome:skipped')
        ctx.count('via:skipped:name-not-multivalued-in-source-class')
        return
    ctx.mon('M.via')
    ctx.count('via:route:' + route)
    ctx.count('via:src:' + src)
    ctx.count('via:cls:' + clsname)
    ctx.count('via:combo:%s:%s:%s' % (route, src, clsname))
    if src == 'mvobj':
        ctx.count('via:mvobj:' + case['srccls'])
    nkeys = len(items) + len(kw)
    ctx.count('via:source-keys:' + ('one' if nkeys == 1 else 'several'))
    ctx.count('via:hot-in:' + ('kw' if any(n == target for n, _ in kw) else 'source-object'))
    carried = [val for _, val in items + kw]
    dfx_all = [x for val in carried for x in model.defects(val)]
    dfx = model.defects(v)
    ctx.count('via:value:' + ('stated-defect' if dfx else 'no-stated-defect'))
    if model.has_boundary(v):
        ctx.nontrivial(case={'via': '%s(%s) -> %s' % (route, src, clsname), 'v': v},
                       key=hashlib.sha1(('via\0%s\0%s\0%s\0%s' % (route, src, clsname, v)).encode('utf-8')).hexdigest())
    depth = step_depth(ctx, {'v': v})
    sel = (zlib.crc32(v.encode('utf-8')) >> 3) + case.get('variant', 0)
    try:
        source = via_source(case, cls)
        if route == 'update-kw' and not items and src == 'dict' and case.get('variant', 0) & 1:
            source = None            # p.update(**kw) on its own
        d = None
        if route != 'ctor':
            d = build_obj(cls, fields, 'assign')
            before = (list(d), d.dump())
    except MonitorViolation:
        raise
    except Exception as e:           # ordinary values under ordinary names / a source the library cannot build
        ctx.count('via:outcome:build-raised')
        ctx.count('via:build-raised:' + type(e).__name__)
        return
    where = ('%s through %s, source %s%s holding %r%s' % (
        clsname, {'update': 'p.update(other)', 'update-kw': 'p.update(other, **kw)', 'ctor': 'cls(other)',
                  'ior': 'p |= other', 'or': 'p | other'}[route], src,
        ' (%s)' % case['srccls'] if src == 'mvobj' else '', items, ', kw %r' % kw if kw else ''))
    if route != 'ctor':
        where += '; paragraph before: %r' % (fields,)
    assigned = [n.lower() for n, _ in fields + items + kw]
    supported = True
    if route in ('ior', 'or'):
        # looked up in the class dictionaries along the MRO (getattr on a class would find type.__or__, the X | Y of
        # typing, through the metaclass)
        offers = lambda name: any(vars(k_).get(name) is not None for k_ in type(d).__mro__)
        supported = offers('__or__') or (route == 'ior' and offers('__ior__'))
    res = None
    try:
        K_ACTIVE[0] = True
        if route == 'update':
            d.update(source)
            res = d
        elif route == 'update-kw':
            if source is None:
                d.update(**dict(kw))
            else:
                d.update(source, **dict(kw))
            res = d
        elif route == 'ctor':
            res = cls(source)
        elif route == 'ior':
            res = operator.ior(d, source)
        else:
            res = operator.or_(d, source)
    except MonitorViolation as e:
        contracts.PENDING[:] = []
        ctx.violation(e.key + '/via-mapping', e.msg, case)
        ctx.count('via:outcome:violation')
        return
    except Exception as e:
        K_ACTIVE[0] = False
        t = type(e).__name__
        if route in ('ior', 'or') and not supported and isinstance(e, TypeError):
            ctx.count('via:outcome:operator-not-supported')     # the class does not offer the operator: nothing happened
        else:
            ctx.count('via:outcome:refused')
            ctx.count('via:refused:%s:%s' % (route, t))
            if not dfx_all:
                ctx.extra['rejected_without_stated_defect'] += 1
                ctx.count('via:refused-without-stated-defect')
            if route == 'ctor':
                ctx.extra['ctor_reject_types'][t] = ctx.extra['ctor_reject_types'].get(t, 0) + 1
            elif not isinstance(e, ValueError) and src in VIA_TYPE_JUDGED:
                ctx.violation('rejection-not-ValueError/via-mapping',
                              '%s: raised %s (%s), not ValueError' % (where, t, e), case)
        if d is None:
            return
        # the paragraph the operation was applied to
        ctx.mon('M.unchanged')
        ctx.mon('M.via.unchanged')
        try:
            after = (list(d), d.dump())
        except Exception as e2:
            after = ('<list/dump raised %s: %s>' % (type(e2).__name__, e2),)
        if after == before:
            return
        if nkeys == 1 or len(after) == 1 or route in ('ior', 'or') and not supported:
            ctx.violation('rejected-assignment-changed-paragraph/via-mapping',
                          '%s: refused (%s) but list/dump changed: %r -> %r' % (where, t, before, after), case)
            return
        # several keys travelled together and some were assigned before the refusal (update() is not promised to be
        # atomic): the field the refused value was meant for must be as it was, nothing but the carried names may have
        # appeared, and what the paragraph now holds is judged like an accepted assignment
        ctx.count('via:partly-applied-before-refusal')
        tl = target.lower()
        was = dict((n.lower(), val) for n, val in fields)
        now_has = tl in [key.lower() for key in d]
        if dfx and (now_has != (tl in was) or (now_has and d[target] != was[tl])):
            ctx.violation('rejected-assignment-changed-paragraph/via-mapping',
                          '%s: refused (%s) but the field %r the refused value was meant for changed: %r -> %r'
                          % (where, t, target, before, after), case)
            return
        via_judge_object(ctx, d, case, assigned, 'paragraph after the refused (%s) %s' % (t, where), 'none', sel)
        return
    finally:
        K_ACTIVE[0] = False
    # ---- no exception
    from debian.deb822 import Deb822
    if not isinstance(res, Deb822):
        # e.g. p | ChainMap(...) is answered by ChainMap.__ror__ with a ChainMap: not a paragraph, nothing to judge -
        # but the paragraph itself must not have taken the value in passing
        ctx.count('via:outcome:result-not-a-paragraph')
        ctx.count('via:result-type:' + type(res).__name__)
        if d is not None and (list(d), d.dump()) != before:
            ctx.count('via:operand-changed-though-result-not-a-paragraph')
            via_judge_object(ctx, d, case, assigned, 'left operand after %s' % where, depth, sel)
        return
    ctx.count('via:outcome:accepted')
    ctx.count('via:accepted:' + route)
    ctx.count('via:accepted:src:' + src)
    ctx.count('via:accepted:cls:' + clsname)
    if dfx:
        ctx.count('via:no-exception-with-defective-value')     # judged by what the paragraph then holds
    via_judge_object(ctx, res, case, assigned, 'result of %s' % where, depth, sel)
    if res is not d and d is not None and (list(d), d.dump()) != before:
        ctx.count('via:left-operand-changed-too')
        via_judge_object(ctx, d, case, assigned, 'left operand after %s' % where, 'none', sel)


# ---------------------------------------------------------------------------

def setup(ctx):
    from debian import deb822
    from .. import contracts
    ctx.extra['ctor_reject_types'] = {}
    ctx.extra['rejected_without_stated_defect'] = 0
    ctx.extra['exhaustive_subspaces'] = [
        'all token strings of length <= %d over %r (sharded)' % (ENUM_MAXLEN[ctx.tier], TOKENS)]

    def snapshot(self, key, value):
        if not K_ACTIVE[0]:
            return None
        return (list(self), self.dump())

    def on_raise(old, exc, self, key, value):
        if old is None:
            return
        now = (list(self), self.dump())
        if now != old:
            contracts.fail('rejected-assignment-changed-paragraph',
                           'K: Deb822.__setitem__(%r, %r) raised %s but the mapping changed: %r -> %r'
                           % (key, value, type(exc).__name__, old, now))

    contracts.wrap(deb822.Deb822, '__setitem__', 'K.setitem-raise', snapshot=snapshot, on_raise=on_raise)
    # subclass layer: what each class declares as multivalued, read before any workload runs
    snapshot_decl()
    ctx.extra['multivalued_declared_at_start'] = sorted('%s:%s' % (c, n) for c in SUBCLASSES for n in DECL[c])
    ctx.extra['multivalued_declaration_differs_from_reference_table'] = sorted(
        '%s:%s' % (c, n) for c in SUBCLASSES for n in set(DECL[c]) ^ set(MV_MODEL[c]))
    import warnings
    # Sources/Packages.iter_paragraphs ask for python-apt by default; it is absent here and the internal parser runs
    warnings.filterwarnings('ignore', message="Parsing of Deb822 data with python3-apt's apt_pkg was requested")


K_ACTIVE = [False]     # the K snapshot is taken only while the harness drives an assignment (not inside re-reads)


def conclusive(tier, counters, monitor_evals, extra):
    """Strings under multivalued names: floors are on attempts; the outcomes are the library's choice.  Every attempt
    must have been classified and every text outcome re-read."""
    c = counters
    cases = c.get('mvs:case', 0)
    done = sum(c.get('mvs:outcome:' + k, 0) for k in ('build-raised', 'assign-raised', 'later-field-raised',
                                                       'assignment-accepted'))
    if cases != done:
        return 'strings under multivalued names: %d cases but %d classified outcomes' % (cases, done)
    objs = c.get('mvs:object', 0)
    if objs != c.get('mvs:outcome:dump-raised', 0) + c.get('mvs:outcome:dump-text', 0):
        return 'strings under multivalued names: %d objects dumped but %d outcomes' % (
            objs, c.get('mvs:outcome:dump-raised', 0) + c.get('mvs:outcome:dump-text', 0))
    vcases = c.get('via:case', 0)
    vdone = sum(c.get('via:outcome:' + k, 0) for k in ('skipped', 'build-raised', 'violation', 'operator-not-supported',
                                                        'refused', 'result-not-a-paragraph', 'accepted'))
    if vcases != vdone:
        return 'mapping-object routes: %d cases but %d classified outcomes' % (vcases, vdone)
    if monitor_evals.get('M.reread-via', 0) < 2 * c.get('via:value-stored', 0):
        return 'mapping-object routes: %d values stored but only %d re-reads' % (
            c.get('via:value-stored', 0), monitor_evals.get('M.reread-via', 0))
    if objs < c.get('mvs:outcome:assignment-accepted', 0):
        return 'strings under multivalued names: accepted assignments whose object was never dumped'
    text = c.get('mvs:outcome:dump-text', 0)
    if monitor_evals.get('M.mvstr', 0) + c.get('mvs:adds-field-at-assignment', 0) < text:
        return 'strings under multivalued names: %d text outcomes, only %d judged' % (text, monitor_evals.get('M.mvstr', 0))
    if monitor_evals.get('M.reread-mvstr', 0) < 2 * monitor_evals.get('M.mvstr', 0):
        return 'strings under multivalued names: %d judged dumps but only %d re-reads' % (
            monitor_evals.get('M.mvstr', 0), monitor_evals.get('M.reread-mvstr', 0))
    return None


def finish(ctx):
    from .. import contracts
    contracts.flush_evals(ctx)
    for k in ('t', 'b'):
        if k in _FILES:
            _FILES[k].close()
    _FILES.clear()


def cases(ctx):
    # subclass layer first (the process is still fresh: no class has seen any multivalued name yet): the cross-class
    # enumeration, the whitespace-only-continuation enumeration, then seeded histories
    for j, case in enumerate(itertools.chain(sub_enum_cases(ctx.quick), sub_ws_cases(ctx.quick), sub_field_cases())):
        if ctx.mine(j):
            yield case
    r = ctx.rng('subclass-histories')
    for k in range(ctx.size(SUB_RANDOM_TOTAL['quick'], SUB_RANDOM_TOTAL['thorough'])):
        yield rand_sub_case(r, k)
    # strings under multivalued names (after the other subclass-layer cases: these steps prime names too)
    for j, case in enumerate(mvs_enum_cases(ctx.quick)):
        if ctx.mine(j):
            yield case
    j = 0
    for k in range(0, MVS_ENUM_MAXLEN[ctx.tier] + 1):
        plen = max(0, k - 2)                     # one block = one context x one prefix x all 10^2 suffixes
        for ci in range(MVS_CONTEXTS):
            for prefix in itertools.product(range(len(TOKENS)), repeat=plen):
                if ctx.mine(j):
                    yield {'kind': 'mvs-penum', 'k': k, 'c': ci, 'prefix': list(prefix)}
                j += 1
    r = ctx.rng('strings-under-multivalued-names')
    for k in range(ctx.size(MVS_RANDOM_TOTAL['quick'], MVS_RANDOM_TOTAL['thorough'])):
        yield rand_mvs_case(r, k)
    # mapping-protocol routes with mapping objects as the source: every (route, source type, class), tokens, seeded
    for j, case in enumerate(via_enum_cases(ctx.quick)):
        if ctx.mine(j):
            yield case
    j = 0
    for k in range(0, VIA_ENUM_MAXLEN[ctx.tier] + 1):
        plen = max(0, k - 2)                     # one block = one prefix x all 10^2 suffixes
        for prefix in itertools.product(range(len(TOKENS)), repeat=plen):
            if ctx.mine(j):
                yield {'kind': 'via-penum', 'k': k, 'prefix': list(prefix)}
            j += 1
    r = ctx.rng('mapping-object-routes')
    for k in range(ctx.size(VIA_RANDOM_TOTAL['quick'], VIA_RANDOM_TOTAL['thorough'])):
        yield rand_via_case(r, k)
    maxlen = ENUM_MAXLEN[ctx.tier]
    idx = 0
    for k in range(0, maxlen + 1):
        plen = max(0, k - BLOCK_SUFFIX)
        for prefix in itertools.product(range(len(TOKENS)), repeat=plen):
            if ctx.mine(idx):
                yield {'kind': 'enum', 'k': k, 'prefix': list(prefix)}
            idx += 1
    r = ctx.rng('random')
    for _ in range(ctx.size(RANDOM_TOTAL['quick'], RANDOM_TOTAL['thorough'])):
        yield rand_case(r)
    # parse-side class: enumerated hot lines in five contexts, then seeded parse/assign histories
    for k in range(0, PENUM_MAXLEN[ctx.tier] + 1):
        plen = max(0, k - BLOCK_SUFFIX)
        for ci in range(len(PCONTEXTS)):
            for prefix in itertools.product(range(len(PTOKENS)), repeat=plen):
                if ctx.mine(idx):
                    yield {'kind': 'penum', 'k': k, 'c': ci, 'prefix': list(prefix)}
                idx += 1
    r = ctx.rng('parse-histories')
    for _ in range(ctx.size(HIST_TOTAL['quick'], HIST_TOTAL['thorough'])):
        yield rand_hist_case(r)


# ---------------------------------------------------------------------------
# one assignment, fully checked

def build(fields):
    from debian.deb822 import Deb822
    d = Deb822()
    for name, val in fields:
        d[name] = val
    return d


def one_case(fields, target, v, route):
    return {'kind': 'one', 'fields': fields, 'target': target, 'v': v, 'route': route}


def classify(keys, names, nparas):
    if nparas > 1:
        return 'accepted-value-starts-new-paragraph'
    if nparas == 0:
        return 'accepted-value-reread-empty'
    lk, lg = [x.lower() for x in keys], [x.lower() for x in names[0]]
    if [x for x in lg if x not in lk]:
        return 'accepted-value-adds-field'
    if [x for x in lk if x not in lg]:
        return 'accepted-value-truncates-paragraph'
    return 'accepted-value-changes-field-names'


def reread_once(src, is_iter, api, strict, cls=None):
    """Field names of the paragraphs one re-read gives.  api 'iter': cls.iter_paragraphs; api 'ctor': the
    cls(...) constructor (reads the first paragraph; on an iterator/file a second call reads what follows).
    cls: Deb822 unless the subclass layer asks for the entry points of one of the subclasses."""
    if cls is None:
        from debian.deb822 import Deb822 as cls
    if api == 'iter':
        return [list(p) for p in cls.iter_paragraphs(src, strict=strict)]
    first = cls(src, strict=strict)
    names = [list(first)] if first else []
    if is_iter:
        rest = cls(src, strict=strict)
        if rest:
            names.append(list(rest))
    return names


def check_reread(ctx, d, v, small, what='dump', depth='none', sel=0, values=None, suffix='', sub=None, sink=None,
                 followed=False, mv=False, text=None, fam='sub'):
    """M.reread: the accepted value's paragraph re-reads as ONE paragraph with the same names.
    values: all values of a PARSED paragraph (the blank-continuation guard of the default setting then looks at every
    one of them, and the re-reads are also counted as M.reread-parsed).
    sub: SUBCLASS LAYER - name of the class of d: the dump is re-read through THAT class's iter_paragraphs / constructor
    (str always, bytes for every 2nd value, plus the forms sub_plan() selects) and, for the other values, as str through
    plain Deb822; counted as M.reread-sub.
    sink: called with (key, message) instead of ctx.violation (the subclass layer picks the witness itself).
    mv: v is a STRING the class accepted under one of its MULTIVALUED names and was willing to dump: always re-read as
    str through the class AND through plain Deb822 (+ bytes through the class for every 2nd value, + sub_plan());
    counted as M.reread-mvstr.
    text: what the paragraph wrote, if the caller has it already.
    fam: counter family of a re-read through a class ('sub': subclass layer; 'via': mapping-object routes - counted as
    M.reread-via and via:* instead of M.reread-sub and sub:*)."""
    keys = list(d)
    if text is None:
        text = d.dump()
    parsed = values is not None and sub is None
    if values is not None:
        blank = any(model.blank_continuation(x) for x in values)
    else:
        blank = model.blank_continuation(v)
    rcls = None
    if sub is not None:
        rcls = sub_cls(sub)
        combos = [('str', 'iter', rcls)]
        if depth == 'all' or sub == 'Deb822' or sel & 1 == 0:
            combos.append(('bytes', 'iter', rcls))
        if sub != 'Deb822' and (depth == 'all' or sel & 1 or mv):
            combos.append(('str', 'iter', None))
        extra = sub_plan(depth, sel)
        combos.extend((f, a, rcls) for f, a in extra if (f, a) not in (('str', 'iter'), ('bytes', 'iter')))
        # a whitespace-only continuation line in the assigned value, with further fields behind it
        ws_followed = followed and model.blank_continuation(v)
        if ws_followed:
            ctx.count(fam + ':ws-only-continuation-followed')
            ctx.count(fam + ':ws-only-continuation-followed:' + sub)
    else:
        ws_followed = False
        combos = [('str', 'iter', None), ('bytes', 'iter', None)]
        extra = plan(depth, sel)
        if extra:
            combos.extend((f, a, None) for f, a in extra)
            if parsed:
                ctx.count('parse:reread-extra-forms')
            elif '\r' in v:
                ctx.count('lf:cr-value')
                if depth in ('full', 'all'):
                    ctx.count('lf:cr-value-4-forms')
                if v.lstrip(' \t')[:1] == '\r':
                    ctx.count('lf:cr-after-colon-blanks')
                if '\r\n' in v or v[-1] == '\r':
                    ctx.count('lf:cr-at-line-end')
                if CR_MID.search(v):
                    ctx.count('lf:cr-mid-line')
    srcs = Sources(ctx, d, text)
    found = {}        # mechanism key -> (first detail, [modes]) : one report per mechanism per case
    for strict, sname in ((WS_FALSE, 'ws-false'), (None, 'default')):
        if strict is None and blank:
            ctx.count('reread-default-skipped:blank-continuation')
            continue
        for form, api, cls in combos:
            mode = '%s/%s' % (form, sname) if api == 'iter' else '%s/Deb822()/%s' % (form, sname)
            ctx.mon('M.reread')
            if sub is not None:
                cname = sub if cls is not None else 'Deb822'
                mode = '%s/%s/%s' % (form, '%s.iter_paragraphs' % cname if api == 'iter' else '%s()' % cname, sname)
                ctx.mon('M.reread-' + fam)
                if mv:
                    ctx.mon('M.reread-mvstr')
                    ctx.count('mvs:reread:%s:%s:%s' % ('cls' if cls is not None else 'Deb822', api, sname))
                    if form not in ('str', 'bytes'):
                        ctx.count('mvs:reread-lf-form')
                ctx.count(fam + ':reread-form:' + form)
                ctx.count('%s:reread:%s:%s' % (fam, cname, api))
                if strict is not None:
                    ctx.count('%s:reread-explicit-strict:%s:%s' % (fam, cname, api))
                    if ws_followed:
                        ctx.count('%s:ws-reread:%s:%s' % (fam, cname, api))
                        ctx.count(fam + ':ws-reread-form:' + form)
            else:
                if parsed:
                    ctx.mon('M.reread-parsed')
                if form not in ('str', 'bytes'):
                    if parsed:               # kept apart: the form:* / api:* floors speak about the assignment side
                        ctx.count('parse:reread-form:' + form)
                    else:
                        if form != UNIVERSAL:
                            ctx.mon('M.reread-lf')
                        ctx.count('form:' + form)
                if api == 'ctor' and not parsed:
                    ctx.count('api:Deb822()')
            closer = None
            try:
                src, is_iter, closer = srcs.get(form, api)
                names = reread_once(src, is_iter, api, strict, cls)
            except Exception as e:       # the dump of an accepted value cannot be read back at all
                found.setdefault('reread-raises', ('raised %s: %s' % (type(e).__name__, e), []))[1].append(mode)
                continue
            finally:
                if closer is not None:
                    closer()
            if len(names) == 1 and names[0] == keys:
                continue
            more = ' (at least)' if api == 'ctor' and len(names) > 1 else ''
            detail = 'gives %d%s paragraph(s) with fields %r' % (len(names), more, names)
            if form in FILE_FORMS:
                detail += ' [file written by dump(fd) holds %r]' % (srcs.file_content(form),)
            found.setdefault(classify(keys, names, len(names)), (detail, []))[1].append(mode)
    for key, (detail, modes) in sorted(found.items()):
        msg = ('%s of accepted value %r is %r; re-read [%s] %s; expected one paragraph with fields %r'
               % (what, v, text, ', '.join(modes), detail, keys))
        if sink is not None:
            sink(key + suffix, msg)
        else:
            ctx.violation(key + suffix, msg, small)
    ok = not found
    return ok


def assign_and_check(ctx, fields, target, v, route, d=None, depth='none', salt=0):
    """Returns the paragraph if it is still pristine (rejected and verified unchanged) so the caller may reuse it.
    depth: how many of the extra re-read forms an accepted value goes through (plan()); a replay runs them all."""
    from debian.deb822 import Deb822
    from ..core import MonitorViolation
    from .. import contracts
    small = one_case(fields, target, v, route)
    dfx = model.defects(v)
    boundary = model.has_boundary(v)
    if boundary:
        ctx.nontrivial(case={'v': v}, key=hashlib.sha1(v.encode('utf-8')).hexdigest())
    ctx.count('route:' + route)

    if route == 'ctor':
        items = {}
        seen = False
        for name, val in fields:
            if name.lower() == target.lower():
                items[name] = v
                seen = True
            else:
                items[name] = val
        if not seen:
            items[target] = v
        try:
            K_ACTIVE[0] = True
            d = Deb822(items)
        except MonitorViolation as e:
            contracts.PENDING[:] = []
            ctx.violation(e.key, e.msg, small)
            return None
        except Exception as e:
            t = type(e).__name__
            ctx.count('rejected')
            ctx.extra['ctor_reject_types'][t] = ctx.extra['ctor_reject_types'].get(t, 0) + 1
            if not dfx:
                ctx.extra['rejected_without_stated_defect'] += 1
            return None
        finally:
            K_ACTIVE[0] = False
        before = None
    else:
        if d is None:
            d = build(fields)
        before = (list(d), d.dump())
        try:
            K_ACTIVE[0] = True
            if route == 'update':
                d.update({target: v})
            elif route == 'setdefault':
                d.setdefault(target, v)
            else:
                d[target] = v
        except MonitorViolation as e:
            contracts.PENDING[:] = []
            ctx.violation(e.key, e.msg, small)
            return None
        except Exception as e:
            K_ACTIVE[0] = False
            ctx.count('rejected')
            ctx.count('rejected:' + ('+'.join(dfx) if dfx else 'no-stated-defect'))
            if not isinstance(e, ValueError):
                ctx.violation('rejection-not-ValueError',
                              'assigning %r to %r raised %s (%s), not ValueError' % (v, target, type(e).__name__, e), small)
            if not dfx:
                ctx.extra['rejected_without_stated_defect'] += 1
            ctx.mon('M.unchanged')
            after = (list(d), d.dump())
            if after != before:
                ctx.violation('rejected-assignment-changed-paragraph',
                              'assigning %r to %r was rejected (%s) but list/dump changed: %r -> %r'
                              % (v, target, type(e).__name__, before, after), small)
                return None
            return d
        finally:
            K_ACTIVE[0] = False

    # ---- accepted
    ctx.count('accepted')
    if boundary:
        ctx.count('accepted-multiline')
    ctx.mon('M.must-reject')
    if dfx:
        ctx.violation('defective-value-accepted/' + dfx[0],
                      'value %r has the stated defect(s) %s but assigning it to %r (%s) was accepted; dump is %r'
                      % (v, '+'.join(dfx), target, route, d.dump()), small)
    if ctx.replay:
        depth = 'all'
    sel = (zlib.crc32(v.encode('utf-8')) >> 3) + salt if depth != 'none' else 0
    check_reread(ctx, d, v, small, depth=depth, sel=sel)
    if route == 'copy':
        try:
            c = d.copy()
        except ValueError:
            ctx.count('copy-rejected')      # no must-accept demand
        else:
            ctx.count('copy-checked')
            check_reread(ctx, c, v, small, what='dump of copy()', depth='all' if ctx.replay else 'one', sel=sel + 5)
    return None


def run_case(ctx, case):
    kind = case['kind']
    if kind == 'one':
        v = case['v']
        h = zlib.crc32(v.encode('utf-8'))
        if '\r' not in v:
            depth = 'one' if ctx.quick or h % 4 == 1 else 'none'
        elif h % (2 if ctx.quick else 4) == 0:
            depth = 'some'
        else:
            depth = 'one'
        assign_and_check(ctx, case['fields'], case['target'], v, case.get('route', 'setitem'), depth=depth)
        return
    if kind == 'parse':
        lines = case['lines']
        h = zlib.crc32('\n'.join(lines).encode('utf-8'))
        ctx.count('parse:history-case')
        run_parse(ctx, case, depth='all' if ctx.replay else ('one' if h % 2 else 'none'), sel=h >> 3)
        return
    if kind == 'penum':
        run_penum(ctx, case)
        return
    if kind == 'sub':
        run_sub(ctx, case)
        return
    if kind == 'mvs-penum':
        run_mvs_penum(ctx, case)
        return
    if kind == 'via':
        run_via(ctx, case, wl=case.get('wl', 'case'))
        return
    if kind == 'via-penum':
        run_via_penum(ctx, case)
        return
    if kind != 'enum':
        raise ValueError('unknown case kind %r' % kind)
    k = case['k']
    prefix = ''.join(TOKENS[i] for i in case['prefix'])
    slen = k - len(case['prefix'])
    rot = len(ENUM_LAYOUTS) - 1
    # one reusable pristine paragraph per layout (reused only after a rejection that was verified to change nothing)
    pristine = [None] * len(ENUM_LAYOUTS)
    n = sum(case['prefix']) + k
    first = True
    for suffix in itertools.product(TOKENS, repeat=slen):
        v = prefix + ''.join(suffix)
        n += 1
        if not first:
            ctx.evaluations += 1
        first = False
        ctx.count('enum-len:%d' % k)
        if k <= 5:
            chosen = (0, 1, 2 + n % (rot - 1))
        elif k == 6 or n % 3 == 0:
            chosen = (0, 1 + (n // 3 if k > 6 else n) % rot)
        else:
            chosen = (0,)
        cr = '\r' in v
        for li in chosen:
            lay = ENUM_LAYOUTS[li]
            if li:                   # other layouts: CR values only, on the first rotated layout (7 tokens: every 2nd)
                depth = 'one' if cr and li == chosen[1] and (k <= 6 or n % 2 == 0) else 'none'
            elif cr:
                if k <= 6 or n % 32 == 0:
                    depth = 'full'
                else:                # 7 tokens: every 2nd CR value gets one LF-only (form, API) pair
                    depth = 'one' if n % 2 else 'none'
            elif k <= 5:
                depth = 'one' if n % 8 == 0 or ('\n' in v and n % 2) else 'none'
            else:
                depth = 'one' if n % (4 if k == 6 else 32) == 1 else 'none'
            pristine[li] = assign_and_check(ctx, lay['fields'], lay['target'], v, 'setitem', pristine[li],
                                            depth=depth, salt=li)


LEVEL_TEXT = ('Runtime monitoring: every string of <= 5 (quick) / <= 7 (thorough) tokens over a 10-token hostile alphabet '
              '(colon, hash, space, tab, CR, LF, hyphen, dot, a letter, a ready-made "B: x" line) and seeded longer '
              'multi-line values are assigned to fields of live Deb822 paragraphs (item assignment, update, setdefault, '
              'Deb822(dict), copy).  Each accepted assignment is dumped and re-read through Deb822.iter_paragraphs (str and '
              'bytes; whitespace-separates-paragraphs=False, and the default when no continuation line is blank) and must '
              'give one paragraph with the same field names; accepted values containing CR (all enumerated ones of <= 5 / '
              '<= 6 tokens, a rotating share of the rest) are also re-read in forms whose lines are cut at LF only - '
              'StringIO, BytesIO, lists of lines with and without terminators, a real text and a real binary file written '
              'by dump(fd) - through iter_paragraphs and the Deb822(...) constructor, with the same demand (paragraph count '
              'and field names only, never values); accepted values must be free of the three stated defects per '
              'an independent model; rejections must be ValueError and leave list()/dump() unchanged.  The same discipline is '
              'applied to values that arrive carried by a mapping OBJECT - update(other), update(other, **kw), cls(other), |= and | '
              'with a Deb822Dict, an unvalidated Deb822, a Dsc/Changes/Release... holding the string under a name multivalued there, '
              'OrderedDict, MappingProxyType, UserDict, ChainMap, a keys()/__getitem__-only object or an iterable of pairs as '
              'the source, on Deb822 and its seven subclasses.  Held-on-observed, '
              'not a proof: reach is the enumerated space plus the sampled values.')
LEVEL_NOTE = ('Trusted: CPython, vp.models.deb822value (line model of the three stated defects), the layout table. Domain as '
              'quantified (no exotic Unicode line boundaries/whitespace); field names are ordinary and disjoint from injectable '
              'names; no must-accept demand; on the Deb822(dict) route any exception counts as rejection.  Reading the dump '
              'back from a file / a sequence of LF-cut lines is taken to be within "reading it back"; values are never compared.')
TECHNIQUE = ('runtime monitoring: boundary oracle M.reread (dump of every accepted assignment re-read by the live parser in all '
             'stated settings and, for values containing CR, in every input form that cuts lines at LF only - in-memory streams, '
             'line lists, real text/binary files: one paragraph, same field names) as deciding monitor, with reference-model monitor M.must-reject, '
             'history monitor M.unchanged on rejections and an exceptional-exit contract on Deb822.__setitem__')
