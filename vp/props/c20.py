"""C20 - the debtags database keeps its two indexes mutually inverse.

Workload: seeded histories over the live ``debian.debtags.DB``: ``read`` of
generated tag lines (distinct package names, several line layouts, optional
tag filter), ``insert`` of a fresh package, and the derivations
``filter_packages[_copy]``, ``filter_packages_tags[_copy]``,
``filter_tags[_copy]``, ``choose_packages[_copy]``, ``facet_collection``,
``reverse``, ``reverse_copy``, ``copy``.  Three shapes:

* *chain* histories - each derivation replaces the current DB, the parent is
  dropped (aliasing between live relatives, which the sharing filter/choose
  variants have by documented design, is never exercised);
* *live-pair* histories (``reverse()`` only - its result is documented and
  implemented as a view) - pseudo-op ``reverse_view``: ``v = db.reverse()`` and
  BOTH objects stay alive; later ``insert`` / ``read`` / ``query`` steps carry
  ``'on': 'other'`` when they address the other object of the pair, and after
  EVERY step both objects are judged: the object against the reference
  relation, its partner against the swapped relation, K8 on both.  The pair is
  formed on degenerate collections too (empty DB; packages without any tag,
  read from lines like ``a`` / ``b:``; a single package; tag keys without
  packages; everything filtered away) - collections in which one of the two
  dictionaries is empty when ``reverse()`` runs.  A ``read`` on one object, a
  ``drop`` or any derivation ends the pair; the chain continues from one of
  the two objects and a pair may be formed again.

* *live derived-pair* histories - a derivation op carrying ``'live': true``:
  ``child = parent.<derivation>(...)`` and BOTH stay alive (the chain
  continues from the child, ``'on': 'other'`` addresses the one that is not
  current).  Afterwards fresh packages are inserted into the parent and into
  the child, under new tags and under tags both collections hold; each object
  has its OWN reference relation (an insert into one changes only that one)
  and after EVERY step both are judged - all query methods against their own
  reference, K8 on both (K8.dpair).  Only for the derivations established on
  the unchanged tree to build the child's tag->packages side afresh:
  filter_packages[_copy], filter_packages_tags[_copy], filter_tags_copy,
  choose_packages[_copy], facet_collection (LIVE_DERIVED).  The arguments
  include the degenerate ones: predicates that keep EVERYTHING / NOTHING,
  choices that name all packages (shuffled, repeated, with unknown names) or
  none, an empty or tag-less parent.  filter_tags, copy and reverse_copy hand
  the child the very package sets an insert into the parent adds to (observed
  on the unchanged tree) - they stay chain-only; the flag is ignored on them.

``query`` steps call tags_of_package / has_package / packages_of_tag / has_tag
/ card on given names - mostly names that are ABSENT in the role asked about,
among them names a LATER insert of the same history uses and tags not stored
yet.  Around these calls, and around the queries the comparison itself makes
at every step, package_count / tag_count / iter_* are snapshotted on every
live object: queries must not change what they report.

Deciding monitor M (client boundary): after EVERY step all query methods of
every live DB (iter_packages / iter_tags / iter_packages_tags /
iter_tags_packages / package_count / tag_count / has_package / has_tag /
tags_of_package / packages_of_tag / card, on present and on absent names) are
compared with an independent reference relation (vp.models.tagrel.Rel)
transformed by the same operation (evidence: M = the object operated on,
M.pair = the live partner, M.query = before/after snapshots).

Auxiliary monitor K8 (contract at the hook, implemented here): after
``DB.insert``, after ``DB.read`` and on every ``DB`` returned by a derivation,
``db`` and ``rdb`` must describe the same set of (package, tag) pairs.  K8 is
evaluated on intermediate objects too (the collection ``facet_collection``
builds through ``insert``), records instead of raising, and run_case drains
its log after every step - so one known defect at an insert boundary does not
abort the history.  In live-pair histories the same condition is additionally
evaluated on BOTH objects after every step (K8.pair).

Classifier (mechanism keys).  ``insert-new-tag-stores-name-characters`` is
reported when, and only when, EVERY disagreement observed at an insert /
facet_collection step has this shape: the tag was not present before, the
package inserted first under it has a multi-character name q, and the tag's
package set equals  (expected - {q}) | set(q)  - i.e. the *characters* of q
stand where q should be.  In a live pair the partner shows the same set as the
tag set of its package t (tags_of_package / iter_packages_tags); that image is
accepted only if the object itself shows the mechanism for the same t and q.
Anything else gets a key naming the disagreeing query and the operation kind
(suffix ``/on-live-reverse-partner`` when it was seen on the object the
operation was NOT applied to; ``/on-live-child-of-<derivation>`` /
``/on-live-parent-of-<derivation>`` in a live derived pair, where nothing seen
on the other object is ever explained by the known mechanism).  After the known mechanism the harness rebuilds
the current DB from the reference relation (and, in a live pair, forms the
pair again with reverse(); in a live derived pair only the object showing the
mechanism is replaced, the other stays as the library built it and the pair
is counted as no longer genuine) and continues the history, so it neither
masks nor contaminates later steps; after any other violation the history
ends.
"""
import io
import zlib

from ..models.tagrel import Rel

PROP = 'C20'
LEVEL = 'exploration'
RULE = ('Seeded histories of <= ~12 operations over debtags.DB: read of generated tag lines / insert of a fresh package / '
        '12 derivation kinds.  (1) chain histories: each derivation replaces the current DB.  (2) live-pair histories: '
        'v = db.reverse() with BOTH objects kept alive (pseudo-op reverse_view), formed on general and on degenerate '
        'collections (empty DB; packages without tags read from lines like "a", "b:"; a single package; tag keys without '
        'packages; everything filtered away), then inserts of fresh single- and multi-character names, reads and queries '
        'addressed to EITHER object, both objects judged after every step (the partner against the swapped relation, K8 on '
        'both); a read, a drop or a derivation ends the pair and the chain continues from one object.  (3) live derived-pair '
        'histories: child = parent.<derivation>(...) with BOTH kept alive (op flag live) for filter_packages[_copy], '
        'filter_packages_tags[_copy], filter_tags_copy, choose_packages[_copy], facet_collection - arguments that keep '
        'EVERYTHING (true-like predicates, choices naming all packages), NOTHING, or some; general, empty and tag-less parents - '
        'then fresh single- and multi-character packages inserted into the parent and into the child, under new tags and under '
        'tags both collections hold, queries and reads addressed to either; each object is judged after every step against its '
        'OWN reference relation, K8 on both; a further live derivation from either object forms the next pair.  (4) query steps in '
        'all shapes: tags_of_package / has_package / packages_of_tag / has_tag / card on names that are mostly absent '
        '(including names a later insert uses); package_count, tag_count and the iter_* results are snapshotted before and '
        'after these calls and around the queries of every comparison, on every live object.  Package names of length 1 and '
        '2..12, tags with and without a "::" facet.  A history is non-trivial when it executed >= 3 operations of >= 2 '
        'different kinds, at least one of them a derivation (reverse_view counts), and at some checked step the relation was '
        'many-to-many (a tag with >= 2 packages and a package with >= 2 tags).')
ASSUMPTIONS = [
    'vp.models.tagrel.Rel (a set of pairs + upper bounds for keys with empty sets) is the reference relation',
    'whether a package without tags (or, after reverse, a tag without packages) remains a key is left open: '
    'observed keys must lie between dom/ran of the relation and the model upper bound, extra keys must map to the empty set; '
    'EXCEPT for a collection derived by choosing packages (filter_packages*, filter_packages_tags*, choose_packages*): its tags '
    'are exactly the tags of the chosen pairs - a tag none of the kept packages carries is not a tag of the result (the '
    'statement: tag counts agree with a relation holding the same pairs; nothing upstream can justify such a key there)',
    'qwrite() / qread() are a write and a read like any other: a collection written into a stream behind other records is read back '
    'from where it starts (the pseudo-derivation `qcache`)',
    'a bound method taken from one DB object (old or new spelling) means that object, whatever is looked up on other objects in between',
    'copy(), reverse() and reverse_copy() give a collection with exactly the keys of their source (swapped for the reversed ones), '
    'including packages without tags / tags without packages',
    'insert(p, tags) names a package: directly afterwards has_package(p) holds and iter_packages() lists p, with or without tags',
    'a read line with a stray separator ("p: a, , b", "p: , a") carries the EMPTY tag name, a name like any other; as a package '
    'name (after reverse) it meets the known insert defect the same way longer names do (set(("")) is empty)',
    'facet of a tag "f::x" is "f" (independent rule); the facet NAME the library gives a tag without "::" is not part of '
    'the property - it is learned from the library on a one-pair collection and only the consistency of the whole relation under that per-tag map is demanded',
    'domain guards: read input has distinct package names and no blank lines; inserted names are fresh '
    'w.r.t. the current packages and tags of every live object; choose_packages_copy is only given names that are present',
    'live relatives, reverse: the pair db / db.reverse() is kept alive and mutated (reverse() is documented as sharing with the '
    'original and implemented as a view over both dictionaries; established on the unchanged tree: the pair stays consistent '
    'in every sub-case driven, including pairs formed while one or both dictionaries are empty)',
    'live relatives, other derivations: established on the unchanged tree (9000 probe pairs / up to 27000 inserts per derivation, arguments keeping '
    'everything / nothing / some, inserts into parent and into child, under existing and new tags): parent and child stay '
    'individually consistent - each equal to its own reference relation, K8 on each - for filter_packages, filter_packages_copy, '
    'filter_packages_tags, filter_packages_tags_copy, filter_tags_copy, choose_packages, choose_packages_copy and '
    'facet_collection.  These give the child a fresh tag->packages dictionary with fresh package sets; what the non-copy variants '
    'share (the tag sets of existing packages) is never touched by an insert of a FRESH package.  Only these are kept alive next '
    'to their parent (op flag live), and only inserts of fresh packages, queries and one closing read are applied to such a pair',
    'chain-only derivations: filter_tags (documented: sharing package sets), copy and reverse_copy (their dictionaries are '
    'shallow copies: the package sets under existing tags ARE the parent\'s, although the docstrings speak of copied tagsets). '
    'On the unchanged tree an insert of a fresh package under an existing tag into the parent shows up in the child\'s '
    'packages_of_tag but not in its tags_of_package (and the other way round).  This is aliasing between live relatives, which the '
    'statement does not rule on; these results are never mutated next to a live parent and the live flag is ignored on them '
    '(skipped_ops: live-flag-on-sharing-derivation-ignored)',
    'a read() on one object of a live DERIVED pair must leave the other one unchanged (separate collections; no latitude as '
    'for the reverse view) when the derivation is a *_copy variant or facet_collection; for filter_packages, '
    'filter_packages_tags and choose_packages (documented: sharing tagsets with the parent) the other object is NOT judged at '
    'that read and the history continues from the object read into; in every case the pair ends there.  The known insert defect in a derived pair: only the object inserted into (or '
    'the facet_collection result itself) may show it; that object alone is replaced by a DB rebuilt from its reference, the other '
    'stays untouched; inserts after such a rebuild are counted apart (dpair:insert-after-harness-rebuild) and do not feed the '
    'dpair:insert* floors.  60% of the generated pair inserts cannot take the defect path (one-character names, or '
    'multi-character names only under tags that already have packages)',
    'the view is judged against the swapped reference relation after inserts into either object.  A read() on one object '
    'of a live pair is the one step where the statement is silent about the OTHER object: it may keep the relation it had '
    '(the implementation as written - read rebinds both dictionaries) or show the swapped new relation (an in-place '
    'read); either is accepted, anything else is a violation; the pair ends at that step and the history continues from one '
    'of the two objects with the reference it matched',
    'the known insert defect seen through a live pair: the partner must show the same character set as tags_of_package / '
    'iter_packages_tags of the tag, and only if the object inserted into shows it for the same tag and name; then BOTH '
    'objects are replaced (DB rebuilt from the reference relation, partner = its reverse()) - nothing is patched inside a '
    'live object, because an implementation may keep derived state (caches) the harness cannot see; the lineage of a '
    'degenerate starting collection ends there (counted as pair:insert/formed-again afterwards)',
    'queries must not change what later queries report: compared are package_count, tag_count and the CONTENT of the four '
    'iter_* results (order-insensitive; iteration order is not part of the statement) before and after query calls; '
    'names asked about in a query step may be present or absent (both must leave the collection unchanged), values '
    'returned for them are compared with the reference relation (absent: empty set / False / 0)',
    'the tag-line text is rendered by the harness from the structured entries of the case (layout bookkeeping is trusted)',
]
ANCHORS = ['debian.debtags:parse_tags',
           'debian.debtags:read_tag_database_both_ways',
           'debian.debtags:reverse',
           'debian.debtags:DB.read',
           'debian.debtags:DB.insert',
           'debian.debtags:DB.reverse',
           'debian.debtags:DB.facet_collection',
           'debian.debtags:DB.copy',
           'debian.debtags:DB.reverse_copy',
           'debian.debtags:DB.choose_packages',
           'debian.debtags:DB.choose_packages_copy',
           'debian.debtags:DB.filter_packages',
           'debian.debtags:DB.filter_packages_copy',
           'debian.debtags:DB.filter_packages_tags',
           'debian.debtags:DB.filter_packages_tags_copy',
           'debian.debtags:DB.filter_tags',
           'debian.debtags:DB.filter_tags_copy',
           'debian.debtags:DB.tags_of_package',
           'debian.debtags:DB.packages_of_tag',
           'debian.debtags:DB.card',
           'debian.debtags:DB.package_count',
           'debian.debtags:DB.tag_count']
MUST_REACH = ['debian.debtags:read_tag_database_both_ways', 'debian.debtags:reverse',
              'debian.debtags:DB.read', 'debian.debtags:DB.insert', 'debian.debtags:DB.reverse',
              'debian.debtags:DB.facet_collection', 'debian.debtags:DB.copy', 'debian.debtags:DB.reverse_copy',
              'debian.debtags:DB.choose_packages', 'debian.debtags:DB.filter_packages',
              'debian.debtags:DB.filter_packages_tags', 'debian.debtags:DB.filter_tags',
              'debian.debtags:DB.tags_of_package', 'debian.debtags:DB.packages_of_tag', 'debian.debtags:DB.card',
              'debian.debtags:DB.package_count', 'debian.debtags:DB.tag_count']

HISTORIES = {'quick': 32000, 'thorough': 1400000}

KNOWN_KEY = 'insert-new-tag-stores-name-characters'

DERIVATIONS = ('reverse', 'reverse_copy', 'copy', 'facet_collection',
               'filter_packages', 'filter_packages_copy', 'filter_packages_tags', 'filter_packages_tags_copy',
               'filter_tags', 'filter_tags_copy', 'choose_packages', 'choose_packages_copy', 'qcache')

# Derivations whose result may be kept alive NEXT TO its parent and both mutated by inserts of fresh packages
# (pseudo-flag 'live': true on the derivation op).  Established on the unchanged tree (see ASSUMPTIONS): these build a
# fresh tag->packages dictionary AND fresh package sets for the child - the only sets an insert of a fresh package adds
# to - so parent and child stay individually consistent whatever is inserted into either of them afterwards.
LIVE_DERIVED = ('filter_packages', 'filter_packages_copy', 'filter_packages_tags', 'filter_packages_tags_copy',
                'filter_tags_copy', 'choose_packages', 'choose_packages_copy', 'facet_collection')
# ... and those for which the unchanged tree itself hands the child the very package sets an insert into the parent
# adds to (filter_tags: documented "sharing package sets"; copy / reverse_copy: shallow dict copies): chain-only.
SHARING_DERIVED = ('filter_tags', 'copy', 'reverse_copy')
# LIVE_DERIVED members documented as "sharing tagsets with this one": what a read() into one member may do to tag sets
# the other still holds is left open - the other member is not judged at (or after) that read, the pair just ends.
DOC_SHARING = ('filter_packages', 'filter_packages_tags', 'choose_packages')

# ---------------------------------------------------------------------------
# K8: contract at the hook

K8_LOG = []            # entries recorded since the last drain (dicts)
K8_STATE = {'evals': 0, 'attached': False, 'detached': False}


def _mismatch(db, rdb):
    p1 = set()
    for p, ts in db.items():
        for t in ts:
            p1.add((p, t))
    p2 = set()
    for t, ps in rdb.items():
        for p in ps:
            p2.add((p, t))
    return p1 - p2, p2 - p1


def _pairs(s):
    return sorted([p, t] for p, t in s)


def _k8_detach():
    from .. import contracts
    if not K8_STATE['detached']:
        K8_STATE['detached'] = True
        contracts.DETACHED.append('K8 (DB.db / DB.rdb not found)')


def setup(ctx):
    from debian import debtags
    from .. import contracts
    DB = debtags.DB

    def snap_insert(self, *a, **kw):
        try:
            return (set(self.rdb), _mismatch(self.db, self.rdb))
        except AttributeError:
            _k8_detach()
            return None

    def post_insert(old, result, self, *a, **kw):
        if old is None:
            return
        pkg = a[0] if a else kw.get('pkg')
        tags = a[1] if len(a) > 1 else kw.get('tags')
        before_keys, (m0, e0) = old
        K8_STATE['evals'] += 1
        m1, e1 = _mismatch(self.db, self.rdb)
        dm, de = m1 - m0, e1 - e0
        if not (dm or de):
            return
        new_tags = sorted(t for t in tags if t not in before_keys)
        known = bool(isinstance(pkg, str) and len(pkg) != 1 and new_tags      # the empty name too: set(('')) is empty
                     and all(self.rdb.get(t) == set(pkg) for t in new_tags)
                     and dm <= {(pkg, t) for t in new_tags}
                     and de <= {(c, t) for c in set(pkg) for t in new_tags})
        K8_LOG.append({'where': 'insert', 'obj': id(self), 'pkg': pkg, 'tags': sorted(tags), 'new_tags': new_tags,
                       'rdb_new': dict((t, sorted(self.rdb.get(t, ()))) for t in new_tags),
                       'missing': dm, 'extra': de, 'known': known})

    def post_self(method):
        def post(old, result, self, *a, **kw):
            try:
                m, e = _mismatch(self.db, self.rdb)
            except AttributeError:
                _k8_detach()
                return
            K8_STATE['evals'] += 1
            if m or e:
                K8_LOG.append({'where': method, 'obj': id(self), 'missing': m, 'extra': e})
        return post

    def post_result(method):
        def post(old, result, self, *a, **kw):
            if not isinstance(result, DB):
                return
            try:
                m, e = _mismatch(result.db, result.rdb)
            except AttributeError:
                _k8_detach()
                return
            K8_STATE['evals'] += 1
            if m or e:
                K8_LOG.append({'where': method, 'obj': id(result), 'missing': m, 'extra': e})
        return post

    n = 0
    if contracts.wrap(DB, 'insert', 'K8.calls', snapshot=snap_insert, post=post_insert) is not None:
        n += 1
    if contracts.wrap(DB, 'read', 'K8.calls', post=post_self('read')) is not None:
        n += 1
    for m in DERIVATIONS:
        if contracts.wrap(DB, m, 'K8.calls', post=post_result(m)) is not None:
            n += 1
    K8_STATE['attached'] = n > 0
    ctx.extra['known_defect_repairs'] = 0
    ctx.extra['skipped_ops'] = {}
    ctx.extra['histories_ended_early'] = 0


def finish(ctx):
    from .. import contracts
    ctx.monitor_evals['K8'] += K8_STATE['evals']
    K8_STATE['evals'] = 0
    contracts.flush_evals(ctx)


def k8_usable():
    return K8_STATE['attached'] and not K8_STATE['detached']


# ---------------------------------------------------------------------------
# predicates (JSON specs -> pure callables; the same callable is used on the
# live DB and on the model)

def spelled(ctx, obj, name, step):
    """The method under its current name or - every third step - under its deprecated camelCase alias (the same callable by
    contract: `fooBar = function_deprecated_by(foo_bar)`)."""
    if step % 3 == 2:
        parts = name.split('_')
        alias = parts[0] + ''.join(p.title() for p in parts[1:])
        if alias != name and hasattr(obj, alias):
            ctx.count('called-through-deprecated-alias')
            ctx.count('alias:' + alias)
            return getattr(obj, alias)
    return getattr(obj, name)


def make_pred(spec):
    k = spec['k']
    if k == 'true':
        return lambda x: True
    if k == 'false':
        return lambda x: False
    if k == 'in':
        s = frozenset(spec['names'])
        return lambda x: x in s
    if k == 'notin':
        s = frozenset(spec['names'])
        return lambda x: x not in s
    if k == 'crc':
        m, rs = spec['m'], frozenset(spec['r'])
        return lambda x: zlib.crc32(x.encode('utf-8')) % m in rs
    if k == 'len':
        n = spec['n']
        return lambda x: len(x) <= n
    if k == 'faceted':
        neg = bool(spec.get('neg'))
        return lambda x: ('::' in x) != neg
    raise ValueError('unknown predicate %r' % (spec,))


def make_pt_pred(spec):
    k = spec['k']
    if k == 'hastag':
        t, neg = spec['tag'], bool(spec.get('neg'))
        return lambda pt: (t in pt[1]) != neg
    if k == 'ntags':
        n = spec['min']
        return lambda pt: len(pt[1]) >= n
    if k == 'pkg':
        f = make_pred(spec['pred'])
        return lambda pt: f(pt[0])
    raise ValueError('unknown (pkg, tags) predicate %r' % (spec,))


# ---------------------------------------------------------------------------
# tag lines

def render_line(e, last, form):
    pk = ', '.join(e['pkgs'])
    if e['tags']:
        s = pk + e.get('sep', ': ') + ', '.join(e['tags']) + e.get('trail', '')
    else:
        s = pk + e.get('bare', '')
    if e.get('nl', True) or (form == 'stringio' and not last):
        s += '\n'
    return s


def entries_ok(entries):
    """Domain guard for read input (also protects hand-edited replay files)."""
    seen = set()
    for e in entries:
        if not e['pkgs']:
            return False
        for i, n in enumerate(list(e['pkgs']) + list(e['tags'])):
            if n == '' and len(e['pkgs']) <= i < len(e['pkgs']) + len(e['tags']) - 1:
                continue                    # the EMPTY tag name: what a stray separator ("p: a, , b", "p: , a") reads as
            if (not n) or n != n.strip() or ', ' in n or any(c.isspace() for c in n):
                return False
        for p in e['pkgs']:
            if ':' in p or p in seen:
                return False
            seen.add(p)
        for t in e['tags']:
            if t.endswith(':') or t.startswith(':'):
                return False
        if e['tags'] and not (e.get('sep', ': ')[:1] == ':' and e.get('sep', ': ')[1:].strip() == ''
                              and len(e.get('sep', ': ')) >= 2):
            return False
        if e.get('trail', '').strip() != '':
            return False
        if not e['tags'] and e.get('bare', '') not in ('', ':', ': ', ':  '):
            return False
    return True


# ---------------------------------------------------------------------------
# facet names

class FacetProbeError(Exception):
    pass


_FACET_CACHE = {}


def facet_of(DB, t):
    i = t.find(':')
    if i > 0 and t[i:i + 2] == '::':
        return t[:i]                       # independent rule for "facet::name"
    if t in _FACET_CACHE:
        return _FACET_CACHE[t]
    # naming of a facet-less tag is the library's business: learn it on a one-pair collection
    from .. import contracts
    contracts._DEPTH[0] += 1               # monitors off: this is oracle work, not workload
    try:
        d = DB()
        d.insert('q', {t})                 # one-character name: the public API builds the one-pair collection
        out = d.facet_collection().tags_of_package('q')
    finally:
        contracts._DEPTH[0] -= 1
    if not isinstance(out, (set, frozenset)) or len(out) != 1 or not isinstance(next(iter(out)), str):
        raise FacetProbeError('facet_collection of the single pair (q, %r) gives tags %r' % (t, out))
    _FACET_CACHE[t] = next(iter(out))
    return _FACET_CACHE[t]


# ---------------------------------------------------------------------------
# boundary oracle M

def _srt(x):
    if isinstance(x, (set, frozenset)):
        return sorted(x)
    return x


def compare(db, rel, absent):
    """All query methods of `db` against the reference relation.
    Returns records (query, name, want, got)."""
    recs = []
    fwd, inv = rel.fwd(), rel.inv()
    dom, ran = rel.dom(), rel.ran()

    pk = list(db.iter_packages())
    pks = set(pk)
    if len(pk) != len(pks) or not (dom <= pks <= rel.pmax):
        recs.append(('iter_packages', None, {'at_least': sorted(dom), 'at_most': sorted(rel.pmax)}, sorted(pk)))
    n = db.package_count()
    if n != len(pks):
        recs.append(('package_count', None, len(pks), n))
    tg = list(db.iter_tags())
    tgs = set(tg)
    if len(tg) != len(tgs) or not (ran <= tgs <= rel.tmax):
        recs.append(('iter_tags', None, {'at_least': sorted(ran), 'at_most': sorted(rel.tmax)}, sorted(tg)))
    n = db.tag_count()
    if n != len(tgs):
        recs.append(('tag_count', None, len(tgs), n))

    items = list(db.iter_packages_tags())
    d = dict(items)
    if len(items) != len(d) or set(d) != pks:
        recs.append(('iter_packages_tags', None, sorted(pks), sorted(d)))
    ritems = list(db.iter_tags_packages())
    rd = dict(ritems)
    if len(ritems) != len(rd) or set(rd) != tgs:
        recs.append(('iter_tags_packages', None, sorted(tgs), sorted(rd)))

    for p in sorted(pks | rel.pmax | absent):
        want = fwd.get(p, set())
        got = db.tags_of_package(p)
        if not isinstance(got, (set, frozenset)) or got != want:
            recs.append(('tags_of_package', p, want, got))
        if p in d and d[p] != want:
            recs.append(('iter_packages_tags', p, want, d[p]))
        hp = db.has_package(p)
        if bool(hp) != (p in pks):
            recs.append(('has_package', p, p in pks, hp))
    for t in sorted(tgs | rel.tmax | absent):
        want = inv.get(t, set())
        got = db.packages_of_tag(t)
        if not isinstance(got, (set, frozenset)) or got != want:
            recs.append(('packages_of_tag', t, want, got))
        c = db.card(t)
        if c != len(want):
            recs.append(('card', t, len(want), c))
        if t in rd and rd[t] != want:
            recs.append(('iter_tags_packages', t, want, rd[t]))
        ht = db.has_tag(t)
        if bool(ht) != (t in tgs):
            recs.append(('has_tag', t, t in tgs, ht))
    return recs


def corrupt(expected, q):
    return (set(expected) - {q}) | set(q)


def explain_known(recs, inv, op, ins_pkg, new_tags, k8_first):
    """Classifier.  Splits the records into those that ARE the known mechanism -
    a tag->packages observation for a tag not present before the insert(s), whose
    value equals (expected - {q}) | set(q) for the multi-character package q
    inserted first under that tag - and the rest.
    Returns ({tag: q}, unexplained_records)."""
    found, rest = {}, []
    by_tag = {}
    for rec in recs:
        if rec[0] not in ('packages_of_tag', 'card', 'iter_tags_packages') or rec[1] is None:
            rest.append(rec)
        else:
            by_tag.setdefault(rec[1], []).append(rec)
    for t in sorted(by_tag):
        rs = by_tag[t]
        sets = [rec for rec in rs if rec[0] != 'card']
        E = inv.get(t, set())
        if op == 'insert':
            cands = [ins_pkg] if (t in new_tags and ins_pkg in E) else []
        else:
            cands = sorted(x for x in E if isinstance(x, str))
            if k8_first is not None:
                cands = [x for x in cands if x in k8_first.get(t, ())]
        hit = None
        for q in cands:
            if not (isinstance(q, str) and len(q) != 1):       # the empty name too: set(("")) is empty
                continue
            G = corrupt(E, q)
            if sets and all(isinstance(rec[3], (set, frozenset)) and set(rec[3]) == G for rec in sets):
                hit = q
                break
        if hit is None:
            rest.extend(rs)
            continue
        found[t] = hit
        G = corrupt(E, hit)
        rest.extend(rec for rec in rs if rec[0] == 'card' and rec[3] != len(G))
    return found, rest


def rebuild(DB, rel, pks, tgs):
    """A DB holding exactly the reference relation (keeps those observed empty
    keys that the model allows).  Assigns the two public dict attributes
    directly - `insert` cannot be used for the repair."""
    fwd, inv = rel.fwd(), rel.inv()
    d = DB()
    d.db = dict((p, set(fwd.get(p, ()))) for p in sorted(rel.dom() | (set(pks) & rel.pmax)))
    d.rdb = dict((t, set(inv.get(t, ()))) for t in sorted(rel.ran() | (set(tgs) & rel.tmax)))
    return d


# ---------------------------------------------------------------------------
# executing one history

def _skip(ctx, why):
    ctx.extra['skipped_ops'][why] = ctx.extra['skipped_ops'].get(why, 0) + 1


def _fmt_recs(recs, limit=4):
    out = []
    for q, name, want, got in recs[:limit]:
        out.append('%s(%s) = %r, reference says %r' % (q, '' if name is None else repr(name), _srt(got), _srt(want)))
    if len(recs) > limit:
        out.append('... %d more' % (len(recs) - limit))
    return '; '.join(out)


def _fmt_k8(entries, limit=2):
    out = []
    for e in entries[:limit]:
        s = 'K8 after %s: in db not in rdb %r, in rdb not in db %r' % (e['where'], _pairs(e['missing'])[:6], _pairs(e['extra'])[:6])
        if e['where'] == 'insert':
            s += ' (insert(%r, %r), tags new to rdb %r -> %r)' % (e['pkg'], e['tags'], e['new_tags'], e['rdb_new'])
        out.append(s)
    return '; '.join(out)


PAIR_OPS = ('reverse_view', 'query', 'drop')
PARTNER = '/on-live-reverse-partner'

SNAP_NAMES = ('package_count', 'tag_count', 'iter_packages', 'iter_tags', 'iter_packages_tags', 'iter_tags_packages')


def snapshot(db):
    """What the counting / iterating methods report right now (order-insensitive, plain data, no live sets)."""
    return (db.package_count(), db.tag_count(), frozenset(db.iter_packages()), frozenset(db.iter_tags()),
            dict((p, frozenset(ts)) for p, ts in db.iter_packages_tags()),
            dict((t, frozenset(ps)) for t, ps in db.iter_tags_packages()))


def _snap_show(x):
    if isinstance(x, dict):
        return dict((k, sorted(v)) for k, v in sorted(x.items()))
    return _srt(x)


def snap_diff(objs, before, after):
    """First counting / iterating observable that differs between two snapshot lists, or None."""
    for (who, _o), b4, af in zip(objs, before, after):
        if b4 != af:
            j = [x != y for x, y in zip(b4, af)].index(True)
            return who, SNAP_NAMES[j], _snap_show(b4[j]), _snap_show(af[j])
    return None


def absent_of(model):
    return frozenset(['~absent~']) | (model.tmax - model.pmax) | (model.pmax - model.tmax)


def start_class(db):
    """Shape of a collection at the moment reverse() builds a live view of it (public API only)."""
    np_, nt = db.package_count(), db.tag_count()
    if np_ == 0 and nt == 0:
        return 'both-empty'
    if nt == 0:
        return 'no-tags'            # packages without any tag: the tag->packages dictionary is empty
    if np_ == 0:
        return 'no-packages'        # tag keys only (the reverse of the above): the package->tags dictionary is empty
    if np_ == 1:
        return 'single-package'
    return 'general'


_MIRROR = {'tags_of_package': 'packages_of_tag', 'iter_packages_tags': 'iter_tags_packages'}


def mirror(rec):
    """A record observed on the live reverse partner, restated for the object the operation ran on
    (the partner's packages are this object's tags).  Only the two tag-set observations have an
    image the known-defect classifier may look at; everything else is marked and never explained."""
    q = rec[0]
    if q in _MIRROR and rec[1] is not None:
        return (_MIRROR[q], rec[1], rec[2], rec[3])
    return ('@' + q, rec[1], rec[2], rec[3])


def _swap(pairs):
    return {(b, a) for a, b in pairs}


def run_case(ctx, case):
    from debian import debtags
    DB = debtags.DB
    K8_LOG[:] = []
    ops = case['ops']
    cur = DB()
    model = Rel()
    partner = None              # a live DB obtained by reverse() from cur (or the DB cur was obtained from): the
    pclass = None               # pair is symmetric while linked, so `model.reversed()` is the partner's reference
    cur_is_view = False
    # link: how the two live objects are related.  'view': partner is cur.reverse() (or cur is partner.reverse()) and its
    # reference is always model.reversed().  'derived': one was obtained from the other by a LIVE_DERIVED derivation
    # (op flag 'live'); from then on they are independent collections, the partner has its OWN reference `pown`.
    link, pown, pkind, dclass = None, None, None, None
    cur_is_child = False        # derived pair: cur is the derived collection (partner its parent) or the other way round
    genuine = False             # derived pair: both objects are still the ones the library built (no harness rebuild)
    executed, kinds, many_to_many, derived = 0, set(), False, False
    pair_steps, pair_inserts = 0, 0
    dpair_steps, dpair_inserts = 0, 0

    def prefix(i):
        return {'kind': 'hist', 'ops': ops[:i + 1]}

    def psuffix():
        if link == 'derived':
            return '/on-live-%s-of-%s' % ('parent' if cur_is_child else 'child', pkind)
        return PARTNER

    for i, op in enumerate(ops):
        kind = op['op']
        new_tags = ()
        ins_pkg = None
        if partner is not None and op.get('on') == 'other':
            # the operation addresses the other object of the live pair: swap roles
            cur, partner = partner, cur
            if link == 'derived':
                model, pown = pown, model
                cur_is_child = not cur_is_child
            else:
                model = model.reversed()
                cur_is_view = not cur_is_view
        # ---- domain guards (also make arbitrary replay files safe) ----------
        if kind == 'insert':
            ins_pkg = op['pkg']
            names_now = set(model.pmax) | set(model.tmax) | set(cur.iter_packages()) | set(cur.iter_tags())
            if partner is not None:
                names_now |= set(partner.iter_packages()) | set(partner.iter_tags())
                if link == 'derived':
                    names_now |= set(pown.pmax) | set(pown.tmax)
            if ins_pkg in names_now or not ins_pkg or ins_pkg in op['tags']:
                _skip(ctx, 'insert-name-not-fresh')
                continue
            new_tags = frozenset(t for t in op['tags'] if not cur.has_tag(t))
        elif kind == 'read':
            if not entries_ok(op['entries']):
                _skip(ctx, 'read-input-outside-domain')
                continue
            if any('' in e['tags'] for e in op['entries']):
                ctx.count('read:line-with-empty-tag-name')
        elif kind == 'query':
            if not op.get('names') or not all(isinstance(n, str) and n for n in op['names']):
                _skip(ctx, 'query-without-names')
                continue
        elif kind == 'drop':
            if partner is None:
                _skip(ctx, 'drop-without-live-pair')
                continue
        elif kind not in DERIVATIONS and kind not in PAIR_OPS:
            raise ValueError('unknown op %r' % (kind,))

        # ---- the operation on the live object and on the model ---------------
        prev_model = model
        qfail = None
        try:
            if kind == 'insert':
                cur.insert(ins_pkg, set(op['tags']))
                nmodel = model.insert(ins_pkg, op['tags'])
                nxt = cur
                # the operation NAMES a package: right after it, the collection has that package - also when it came
                # without tags (what later derivations do with tag-less packages stays open, see ASSUMPTIONS)
                ctx.mon('M.insert-post')
                if not op['tags']:
                    ctx.count('insert:without-tags')
                hp = cur.has_package(ins_pkg)
                if not hp or ins_pkg not in set(cur.iter_packages()):
                    ctx.violation('inserted-package-not-in-collection',
                                  'insert(%r, %r): has_package = %r, iter_packages() %s it, package_count() = %r'
                                  % (ins_pkg, sorted(op['tags']), hp, 'lists' if ins_pkg in set(cur.iter_packages()) else 'does not list',
                                     cur.package_count()), prefix(i))
            elif kind == 'read':
                form = op.get('form', 'iter')
                ents = op['entries']
                lines = [render_line(e, j == len(ents) - 1, form) for j, e in enumerate(ents)]
                if form == 'list':
                    src = lines
                elif form == 'gen':
                    src = (x for x in lines)
                elif form == 'stringio':
                    src = io.StringIO(''.join(lines))
                else:
                    src = iter(lines)
                tf = make_pred(op['tag_filter']) if op.get('tag_filter') else None
                if tf is None and not op.get('explicit_none'):
                    cur.read(src)
                else:
                    cur.read(src, tf)
                nmodel = Rel.from_lines([(e['pkgs'], e['tags']) for e in ents], tf)
                nxt = cur
            elif kind == 'reverse_view':
                # v = cur.reverse(); BOTH objects stay alive (any earlier partner is dropped)
                pclass = start_class(cur)
                nv = cur.reverse()
                if not isinstance(nv, DB):
                    ctx.violation('derivation-does-not-return-DB-reverse', 'reverse returned %r' % (type(nv),), prefix(i))
                    ctx.extra['histories_ended_early'] += 1
                    return
                partner = nv
                link, pown = 'view', None
                cur_is_view = False
                nxt, nmodel = cur, model
                ctx.count('view-start:' + pclass)
            elif kind == 'drop':
                partner = None
                link, pown = None, None
                nxt, nmodel = cur, model
            elif kind == 'query':
                # queries (mostly on names that are absent) must not change what the counting / iterating
                # methods report afterwards - on this object and on its live reverse partner
                objs = [('', cur)] + ([(psuffix(), partner)] if partner is not None else [])
                before = [snapshot(o) for _, o in objs]
                pkeys, tkeys = set(before[0][2]), set(before[0][3])
                fwd, inv = model.fwd(), model.inv()
                qrecs = []
                for n in op['names']:
                    got = cur.tags_of_package(n)
                    if not isinstance(got, (set, frozenset)) or got != fwd.get(n, set()):
                        qrecs.append(('tags_of_package', n, fwd.get(n, set()), got))
                    hp = cur.has_package(n)
                    if bool(hp) != (n in pkeys):
                        qrecs.append(('has_package', n, n in pkeys, hp))
                    got = cur.packages_of_tag(n)
                    if not isinstance(got, (set, frozenset)) or got != inv.get(n, set()):
                        qrecs.append(('packages_of_tag', n, inv.get(n, set()), got))
                    ht = cur.has_tag(n)
                    if bool(ht) != (n in tkeys):
                        qrecs.append(('has_tag', n, n in tkeys, ht))
                    c = cur.card(n)
                    if c != len(inv.get(n, ())):
                        qrecs.append(('card', n, len(inv.get(n, ())), c))
                    ctx.count('q:absent-name-queries', 2 * (n not in pkeys) + 3 * (n not in tkeys))
                    ctx.count('q:present-name-queries', 2 * (n in pkeys) + 3 * (n in tkeys))
                # a bound method taken from THIS object keeps meaning this object, whatever is looked up on other objects in
                # between (old and new spelling alike)
                ctx.mon('M.query.bound')
                other = partner if partner is not None else debtags.DB()
                for mname, table in (('tags_of_package', fwd), ('tagsOfPackage', fwd), ('packages_of_tag', inv), ('packagesOfTag', inv)):
                    bound = getattr(cur, mname)
                    getattr(other, mname)('~absent~')
                    for n in list(op['names'])[:2] + sorted(pkeys if table is fwd else tkeys)[:2]:
                        got = bound(n)
                        ctx.count('q:bound-method-called-after-lookup-on-another-object')
                        if not isinstance(got, (set, frozenset)) or got != table.get(n, set()):
                            qrecs.append((mname + ' (bound earlier)', n, table.get(n, set()), got))
                # the multi-name and derived read-only queries: answers per the relation where the statement gives one
                # (union over the names), and - like every query - no trace in the collection afterwards
                ctx.mon('M.query.multi')
                present_p, present_t = sorted(pkeys)[:3], sorted(tkeys)[:3]
                for names, meth, table in ((present_p + list(op['names']), 'tags_of_packages', fwd),
                                           (list(op['names']) + present_p, 'tags_of_packages', fwd),
                                           (present_t + list(op['names']), 'packages_of_tags', inv),
                                           (list(op['names']) + present_t, 'packages_of_tags', inv)):
                    if len(names) < 2:
                        continue
                    want = set()
                    for n in names:
                        want |= set(table.get(n, ()))
                    try:
                        got = getattr(cur, meth)(iter(names))
                    except Exception:
                        ctx.count('q:multi-name-query-raised')
                        continue
                    ctx.count('q:multi-name-query')
                    if not isinstance(got, (set, frozenset)) or set(got) != want:
                        qrecs.append((meth, names, want, got))
                for call in (lambda: cur.ideal_tagset(present_t), lambda: [cur.discriminance(t) for t in present_t],
                             lambda: list(cur.correlations()) if len(tkeys) <= 12 else None):
                    try:
                        call()
                        ctx.count('q:derived-read-only-query')
                    except Exception:
                        ctx.count('q:derived-read-only-query-raised')
                after = [snapshot(o) for _, o in objs]
                ctx.mon('M.query', len(objs))
                if partner is not None:
                    ctx.count('q:with-live-partner' if link == 'view' else 'q:with-live-derived-partner')
                diff = snap_diff(objs, before, after)
                if diff is not None:
                    qfail = ('%s-changed-by-queries%s' % (diff[1], diff[0]),
                             'step %d: after tags_of_package / has_package / packages_of_tag / has_tag / card on %r '
                             '(package keys before: %r, tag keys before: %r) %s() reports %r, before the queries %r'
                             % (i, op['names'], sorted(pkeys), sorted(tkeys), diff[1], diff[3], diff[2]))
                if qfail is None and qrecs:
                    qfail = ('%s-disagrees-with-reference-in-query-step' % qrecs[0][0], 'step %d: %s' % (i, _fmt_recs(qrecs)))
                nxt, nmodel = cur, model
            elif kind in ('reverse', 'reverse_copy'):
                nxt = spelled(ctx, cur, kind, i)()
                nmodel = model.reversed()
                # a (reversed) copy / view has exactly the keys of its source, swapped - also those with empty sets
                ctx.mon('M.copy-keys')
                if set(nxt.iter_packages()) != set(cur.iter_tags()) or set(nxt.iter_tags()) != set(cur.iter_packages()):
                    ctx.violation('reversed-copy-or-view-has-other-keys-than-its-source',
                                  '%s: source packages %r tags %r; result packages %r tags %r'
                                  % (kind, sorted(cur.iter_packages()), sorted(cur.iter_tags()), sorted(nxt.iter_packages()), sorted(nxt.iter_tags())),
                                  prefix(i))
            elif kind == 'qcache':
                # the quick cache: qwrite() into a stream that may already hold something (another collection, a header
                # record), qread() from where this collection starts - a read like any other
                import pickle
                buf = io.BytesIO()
                lead = op.get('lead', 'none')
                if lead == 'other-collection':
                    o = DB()
                    o.read(iter(['zz9: qcache::other, x\n', 'yy8: qcache::other\n']))
                    o.qwrite(buf)
                elif lead == 'header':
                    pickle.dump({'format': 1, 'note': 'header record'}, buf)
                at = buf.tell()
                cur.qwrite(buf)
                if op.get('trail'):
                    pickle.dump('trailer', buf)
                buf.seek(at)
                nxt = DB()
                nxt.qread(buf)
                ctx.count('qcache:lead=%s' % lead)
                nmodel = model.same()
            elif kind == 'copy':
                nxt = cur.copy()
                nmodel = model.same()
                ctx.mon('M.copy-keys')
                if set(nxt.iter_packages()) != set(cur.iter_packages()) or set(nxt.iter_tags()) != set(cur.iter_tags()):
                    ctx.violation('copy-has-other-keys-than-its-source',
                                  'copy(): source packages %r tags %r; copy packages %r tags %r'
                                  % (sorted(cur.iter_packages()), sorted(cur.iter_tags()), sorted(nxt.iter_packages()), sorted(nxt.iter_tags())),
                                  prefix(i))
            elif kind == 'facet_collection':
                try:
                    fmap = dict((t, facet_of(DB, t)) for t in sorted(set(model.tmax) | set(cur.iter_tags())))
                except FacetProbeError as e:
                    ctx.violation('facet-collection-of-single-pair-malformed', str(e), prefix(i))
                    ctx.extra['histories_ended_early'] += 1
                    return
                nxt = cur.facet_collection()
                nmodel = model.map_tags(lambda t: fmap[t])
            elif kind in ('filter_packages', 'filter_packages_copy'):
                f = make_pred(op['pred'])
                nxt = spelled(ctx, cur, kind, i)(f)
                nmodel = model.keep_packages(f)
            elif kind in ('filter_tags', 'filter_tags_copy'):
                f = make_pred(op['pred'])
                nxt = spelled(ctx, cur, kind, i)(f)
                nmodel = model.keep_tags(f)
            elif kind in ('filter_packages_tags', 'filter_packages_tags_copy'):
                f = make_pt_pred(op['pred'])
                nxt = spelled(ctx, cur, kind, i)(f)
                nmodel = model.keep_packages_tags(f)
            else:   # choose_packages / choose_packages_copy
                names = list(op['names'])
                if kind == 'choose_packages_copy':
                    dom = model.dom()
                    names = [x for x in names if x in dom or (x in model.pmax and cur.has_package(x))]
                arg = iter(names) if op.get('as') == 'iter' else (tuple(names) if op.get('as') == 'tuple' else names)
                nxt = spelled(ctx, cur, kind, i)(arg)
                nmodel = model.choose(names)
        except (KeyboardInterrupt, SystemExit):
            raise
        except Exception as e:
            K8_LOG[:] = []
            ctx.violation('operation-raises-%s' % kind, '%s raised %s: %s' % (kind, type(e).__name__, e), prefix(i))
            ctx.extra['histories_ended_early'] += 1
            return
        if not isinstance(nxt, DB):
            ctx.violation('derivation-does-not-return-DB-%s' % kind, '%s returned %r' % (kind, type(nxt)), prefix(i))
            ctx.extra['histories_ended_early'] += 1
            return
        if kind in DERIVATIONS:
            if op.get('live') and kind in LIVE_DERIVED:
                # live derived pair: the chain continues from the result AND the parent stays alive (any earlier
                # partner is dropped); from here on the two are judged as independent collections
                partner, pown = cur, model
                link, pkind, cur_is_child, genuine = 'derived', kind, True, True
                if not model.pairs:
                    dclass = 'parent-empty'
                elif nmodel.pairs == model.pairs:
                    dclass = 'keeps-everything'
                elif not nmodel.pairs:
                    dclass = 'keeps-nothing'
                else:
                    dclass = 'keeps-some'
                ctx.count('dpair:formed/%s/%s' % (kind, dclass))
            else:
                if op.get('live'):
                    _skip(ctx, 'live-flag-on-sharing-derivation-ignored')
                partner = None      # a derivation continues the chain from its result; live relatives are dropped
                link, pown = None, None
        cur, model = nxt, nmodel
        executed += 1
        kinds.add(kind)
        derived = derived or kind in DERIVATIONS or kind == 'reverse_view'
        ctx.count('op:' + kind)
        if partner is not None and link == 'derived':
            dpair_steps += 1
            ctx.count('dpair:op:' + kind)
            if kind == 'insert':
                dpair_inserts += 1
                if genuine:
                    ctx.count('dpair:insert/' + pkind)
                    ctx.count('dpair:insert-class/' + dclass)
                    ctx.count('dpair:insert-into-' + ('child' if cur_is_child else 'parent'))
                    oth = pown.ran()
                    if any(t not in new_tags and t in oth for t in op['tags']):
                        # a tag both collections hold: the insert adds to a package set the other one would see if shared
                        ctx.count('dpair:insert-under-tag-of-both')
                        ctx.count('dpair:insert-under-tag-of-both/' + pkind)
                    if len(ins_pkg) > 1:
                        ctx.count('dpair:insert-multichar-name')
                else:
                    ctx.count('dpair:insert-after-harness-rebuild')
        elif partner is not None:
            pair_steps += 1
            ctx.count('pair:op:' + kind)
            if kind == 'insert':
                pair_inserts += 1
                ctx.count('pair:insert/' + pclass)
                ctx.count('pair:insert-on-' + ('view' if cur_is_view else 'original'))
                if len(ins_pkg) > 1:
                    ctx.count('pair:insert-multichar-name')
        if qfail is not None:
            K8_LOG[:] = []
            ctx.violation(qfail[0], qfail[1], prefix(i))
            ctx.extra['histories_ended_early'] += 1
            break

        if kind == 'read' and link == 'derived' and pkind in DOC_SHARING:
            ctx.count('dpair:read-ends-sharing-pair-unjudged')
            partner = None
            link, pown = None, None

        # ---- monitors ---------------------------------------------------------
        k8 = list(K8_LOG)
        K8_LOG[:] = []
        absent = absent_of(model)
        # the comparison itself asks about absent names (and about names whose key a derivation may have dropped):
        # what the counting / iterating methods report must be the same before and after it, on every live object
        objs = [('', cur)] + ([(psuffix(), partner)] if partner is not None else [])
        before = [snapshot(o) for _, o in objs]
        ctx.mon('M')
        recs = compare(cur, model, absent)
        many_to_many = many_to_many or model.shared_tag()
        precs, pk8, pmodel = [], [], None
        if partner is not None:
            # the live partner against the swapped reference; a read() on one object of the pair is the one
            # place where the statement is silent about the other: it may keep the old relation (the
            # implementation as written: read rebinds) or follow the new one - either is accepted
            # A derived pair has no such latitude: parent and child are separate collections, the partner keeps
            # its own reference whatever is inserted into / read into the object operated on.
            if link == 'derived':
                pmodel = pown
            else:
                pmodel = prev_model.reversed() if kind == 'read' else model.reversed()
            ctx.mon('M.pair' if link == 'view' else 'M.dpair')
            precs = compare(partner, pmodel, absent_of(pmodel))
            if kind == 'read' and link == 'view':
                if not precs:
                    ctx.count('pair:read-partner-keeps')
                else:
                    alt = model.reversed()
                    if not compare(partner, alt, absent_of(alt)):
                        precs, pmodel = [], alt
                        ctx.count('pair:read-partner-follows')
            if k8_usable():
                for who, o in (('object', cur), ('partner', partner)):
                    try:
                        m, e = _mismatch(o.db, o.rdb)
                    except AttributeError:
                        _k8_detach()
                        break
                    ctx.mon('K8.pair' if link == 'view' else 'K8.dpair')
                    if m or e:
                        pk8.append({'where': 'pair-step/' + kind, 'who': who, 'obj': id(o), 'missing': m, 'extra': e})

        ctx.mon('M.query', len(objs))
        diff = snap_diff(objs, before, [snapshot(o) for _, o in objs])
        if diff is not None:
            ctx.violation('%s-changed-by-queries%s' % (diff[1], diff[0]),
                          'step %d (%s): the query methods were called on all present names and on the absent names %r; '
                          'afterwards %s() reports %r, before %r' % (i, kind, sorted(absent), diff[1], diff[3], diff[2]), prefix(i))
            ctx.extra['histories_ended_early'] += 1
            break

        if recs or k8 or precs or pk8:
            # ---- classification -----------------------------------------------
            first, rest, k8_rest, k8_ins = {}, recs, k8, []
            prest, pk8_rest = precs, pk8
            # insert and facet_collection (which builds its result through insert) are where the known mechanism can
            # show; any other operation only if K8 itself saw a known-shaped insert inside it
            if kind in ('insert', 'facet_collection') or (k8_usable() and any(e['where'] == 'insert' and e['known'] for e in k8)):
                k8_ins = [e for e in k8 if e['where'] == 'insert' and e['known']]
                k8_rest = [e for e in k8 if e['where'] == 'insert' and not e['known']]
                k8_first = None
                if k8_usable():
                    k8_first = {}
                    for e in k8_ins:
                        for t in e['new_tags']:
                            k8_first.setdefault(t, set()).add(e['pkg'])
                for e in k8:          # a returned collection may only show what its known inserts left behind
                    if e['where'] == 'insert':
                        continue
                    dm, de = set(), set()
                    for x in k8_ins:
                        if x['obj'] == e['obj']:
                            dm |= x['missing']
                            de |= x['extra']
                    if not (e['missing'] <= dm and e['extra'] <= de):
                        k8_rest.append(e)
                # the partner shares the corrupted set: its tags_of_package / iter_packages_tags observations are
                # restated as this object's packages_of_tag / iter_tags_packages and must show the SAME value
                # (reverse view only: the partner of a DERIVED pair is a separate collection - nothing seen on it is
                # ever explained by an insert into the other object)
                first, rest = explain_known(recs, model.inv(), kind, ins_pkg, new_tags, k8_first)
                if link == 'view':
                    back = {}
                    mirrored = []
                    for rec in precs:
                        mrec = mirror(rec)
                        back[id(mrec)] = rec
                        mirrored.append(mrec)
                    pfirst, prest_m = explain_known(mirrored, model.inv(), kind, ins_pkg, new_tags, k8_first)
                    prest = [back[id(x)] for x in prest_m]
                    for t in sorted(pfirst):
                        if first.get(t) != pfirst[t]:       # the partner shows the mechanism where the object itself does not
                            prest.extend(back[id(x)] for x in mirrored if x[1] == t and not x[0].startswith('@'))
                dm, de = set(), set()
                for x in k8_ins:
                    if x['obj'] == id(cur):
                        dm |= x['missing']
                        de |= x['extra']
                pk8_rest = []
                for e in pk8:
                    if e['who'] == 'object':
                        ok = e['missing'] <= dm and e['extra'] <= de
                    else:
                        ok = link == 'view' and e['missing'] <= _swap(de) and e['extra'] <= _swap(dm)
                    if not ok:
                        pk8_rest.append(e)
            if first or k8_ins:
                t0 = sorted(first)[0] if first else k8_ins[0]['new_tags'][0]
                q0 = first[t0] if first else k8_ins[0]['pkg']
                ctx.violation(KNOWN_KEY,
                              '%s: tag %r was not present; the package inserted first under it is %r, but '
                              'packages_of_tag(%r) = %r - the characters of the name - where the reference relation has %r '
                              '(tags_of_package(%r) does list the tag, so db and rdb are no longer inverse). %s'
                              % (kind, t0, q0, t0, sorted(cur.packages_of_tag(t0)), sorted(model.inv().get(t0, ())), q0,
                                 _fmt_k8([e for e in k8_ins if t0 in e['new_tags']] or k8_ins, 1)), prefix(i))
                ctx.count('known-defect-at:' + kind)
                if partner is not None:
                    ctx.count('known-defect-with-live-partner' if link == 'view' else 'known-defect-with-live-derived-partner')
            if rest:
                key = '%s-disagrees-with-reference-after-%s' % (rest[0][0], kind)
                ctx.violation(key, 'step %d (%s): %s%s' % (i, kind, _fmt_recs(rest),
                                                           ('; ' + _fmt_k8(k8_rest)) if k8_rest else ''), prefix(i))
            elif prest:
                key = '%s-disagrees-with-reference-after-%s%s' % (prest[0][0], kind, psuffix())
                if link == 'derived':
                    what = ('%s on the %s of a live pair parent / parent.%s(...) [%s]; observed on the OTHER object, judged '
                            'against its own reference relation' % (kind, 'child' if cur_is_child else 'parent', pkind, dclass))
                else:
                    what = '%s on the %s of a live db/db.reverse() pair; observed on the OTHER object' % (
                        kind, 'view' if cur_is_view else 'original')
                ctx.violation(key, 'step %d (%s): %s%s' % (i, what, _fmt_recs(prest),
                                                           ('; ' + _fmt_k8(pk8_rest)) if pk8_rest else ''), prefix(i))
            elif k8_rest:
                ctx.violation('indexes-not-inverse-after-%s' % k8_rest[0]['where'],
                              'step %d (%s): %s' % (i, kind, _fmt_k8(k8_rest)), prefix(i))
            elif pk8_rest:
                ctx.violation('indexes-not-inverse-after-%s%s' % (kind, psuffix() if pk8_rest[0]['who'] == 'partner' else
                                                                   ('/in-live-reverse-pair' if link == 'view' else '/in-live-derived-pair')),
                              'step %d (%s): on the %s: %s' % (i, kind, pk8_rest[0]['who'], _fmt_k8(pk8_rest)), prefix(i))
            if rest or prest or k8_rest or pk8_rest or not k8_usable():
                # something other than the known mechanism (or no way to repair): the state is not trusted any more
                ctx.extra['histories_ended_early'] += 1
                break
            # only the known mechanism: repair the harness's view and continue
            if partner is None:
                # chain: continue from a DB holding the reference relation
                cur = rebuild(DB, model, cur.iter_packages(), cur.iter_tags())
                again = compare(cur, model, absent)
                if again or any(_mismatch(cur.db, cur.rdb)):
                    raise RuntimeError('harness: rebuilt DB disagrees with the reference: %s' % _fmt_recs(again))
            elif link == 'derived':
                # live derived pair: the object that shows the known mechanism is replaced by a DB holding its reference
                # relation; the other one (just judged clean against its own reference) stays as the library built it.
                # From here on the pair proves less (one member is harness-built): counted apart, not under dpair:insert/*
                cur = rebuild(DB, model, cur.iter_packages(), cur.iter_tags())
                again = compare(cur, model, absent)
                if again or any(_mismatch(cur.db, cur.rdb)):
                    raise RuntimeError('harness: rebuilt DB disagrees with the reference: %s' % _fmt_recs(again))
                genuine = False
                ctx.count('dpair:rebuilt-after-known-defect')
            else:
                # live pair: both objects are replaced - the object by a DB holding the reference relation, the partner
                # by a fresh reverse() of it (nothing is patched inside live objects: an implementation may keep
                # derived state the harness cannot see)
                cur = rebuild(DB, model, cur.iter_packages(), cur.iter_tags())
                again = compare(cur, model, absent)
                if again or any(_mismatch(cur.db, cur.rdb)):
                    raise RuntimeError('harness: rebuilt DB disagrees with the reference: %s' % _fmt_recs(again))
                partner = cur.reverse()
                K8_LOG[:] = []
                pm = model.reversed()
                pagain = compare(partner, pm, absent_of(pm)) if isinstance(partner, DB) else [('reverse', None, 'a DB', type(partner))]
                if pagain:
                    ctx.violation('%s-disagrees-with-reference-after-reverse%s' % (pagain[0][0], PARTNER),
                                  'step %d (%s): live pair formed again after the known insert defect (reverse() of a DB '
                                  'holding the reference relation): %s' % (i, kind, _fmt_recs(pagain)), prefix(i))
                    ctx.extra['histories_ended_early'] += 1
                    break
                cur_is_view = False
                pclass = 'formed-again'
                ctx.count('pair:formed-again-after-known-defect')
            ctx.extra['known_defect_repairs'] += 1

        # ---- after a read() on one object of a live pair the pair ends: continue with one of the two ----------
        if kind == 'read' and partner is not None:
            if op.get('keep') == 'other':
                cur, model = partner, pmodel
                cur_is_view = not cur_is_view
            partner = None
            link, pown = None, None

    if pair_steps >= 2 and pair_inserts >= 1:
        ctx.count('hist:live-pair-with-insert')
    if dpair_steps >= 2 and dpair_inserts >= 1:
        ctx.count('hist:live-derived-pair-with-insert')
    if executed >= 3 and len(kinds) >= 2 and derived and many_to_many:
        ctx.nontrivial()


# ---------------------------------------------------------------------------
# workload

LETTERS = 'abcdefghijklmnopqrstuvwxyz'
DIGITS = '0123456789'
BODY = LETTERS + DIGITS + '+-.'
FACETS = ['use', 'role', 'works-with', 'interface', 'x', 'implemented-in', 'uitoolkit']
VALUES = ['a', 'b', 'x', 'program', 'text', 'c++', 'gtk', 'shared-lib', 'y::z']
WORDS = ['a', 'b', 'c', 'k', 'ab', 'zz', 'misc', 'special', 'todo', 'xy', 'legacy', 't']


def fresh_pkg(r, used, single):
    for _ in range(60):
        if single or r.random() < 0.2:
            n = r.choice(LETTERS + DIGITS)
        else:
            L = 2 if r.random() < 0.25 else r.randint(3, 12)
            n = r.choice(LETTERS + DIGITS) + ''.join(r.choice(BODY) for _ in range(L - 1))
            if not any(c in DIGITS for c in n):     # keeps package names apart from (prefixes of) tag words
                j = r.randrange(1, L)
                n = n[:j] + r.choice(DIGITS) + n[j + 1:]
            if r.random() < 0.15:                   # repeated characters: set(name) smaller than the name
                n = n[0] * (L - 1) + r.choice(DIGITS)
        if n not in used:
            return n
    return None


def fresh_tag(r, used):
    for _ in range(60):
        if r.random() < 0.65:
            t = r.choice(FACETS) + '::' + r.choice(VALUES)
        else:
            t = r.choice(WORDS) if r.random() < 0.7 else ''.join(r.choice(LETTERS) for _ in range(r.randint(1, 6)))
        if t not in used:
            return t
    return None


def gen_pred(r, names):
    names = sorted(names)
    k = r.random()
    if k < 0.45 and names:
        return {'k': r.choice(['in', 'in', 'notin']), 'names': r.sample(names, r.randint(0, len(names)))}
    if k < 0.70:
        m = r.choice([2, 3, 4])
        return {'k': 'crc', 'm': m, 'r': r.sample(range(m), r.randint(1, m - 1))}
    if k < 0.80:
        return {'k': 'len', 'n': r.choice([1, 2, 3, 5, 8])}
    if k < 0.90:
        return {'k': 'faceted', 'neg': r.random() < 0.5}
    return {'k': r.choice(['true', 'true', 'false'])}


def gen_read(r, state, single, pool, avoid=(), nlines=None, max_tags=None):
    ents = []
    used = set()
    form = r.choice(['iter', 'iter', 'list', 'gen', 'stringio'])
    if nlines is None:
        nlines = r.choice([0, 1, 2, 3, 3, 4, 5, 6, 8])
    for _ in range(nlines):
        pkgs = []
        for _k in range(2 if r.random() < 0.2 else 1):
            p = fresh_pkg(r, used | set(pool) | set(avoid), single)
            if p is not None:
                pkgs.append(p)
                used.add(p)
        if not pkgs:
            continue
        ntags = r.choice([0, 1, 1, 2, 2, 3, 4])
        if max_tags is not None:
            ntags = min(ntags, max_tags)
        tags = r.sample(pool, min(len(pool), ntags))
        if tags and r.random() < 0.07:
            tags.insert(r.randrange(len(tags)), '')     # stray separator: the empty tag name (never in last position)
        e = {'pkgs': pkgs, 'tags': tags}
        if tags:
            sep = r.choice([': ', ': ', ': ', ':  ', ':\t'])
            if sep != ': ':
                e['sep'] = sep
            if r.random() < 0.15:
                e['trail'] = r.choice([' ', '  ', '\t'])
        else:
            b = r.choice(['', ':', ': '])
            if b:
                e['bare'] = b
        if r.random() < 0.12:
            e['nl'] = False
        ents.append(e)
    op = {'op': 'read', 'entries': ents, 'form': form}
    if r.random() < 0.25:
        op['tag_filter'] = gen_pred(r, pool)
    elif r.random() < 0.2:
        op['explicit_none'] = True
    return op


def gen_apply(model, op):
    """Generation-time model: only steers argument choice (facet names of facet-less tags are approximated;
    a read() inside a live pair is taken to leave the other object alone)."""
    k = op['op']
    if k == 'read':
        tf = make_pred(op['tag_filter']) if op.get('tag_filter') else None
        return Rel.from_lines([(e['pkgs'], e['tags']) for e in op['entries']], tf)
    if k == 'insert':
        return model.insert(op['pkg'], op['tags'])
    if k in ('reverse', 'reverse_copy'):
        return model.reversed()
    if k in ('copy', 'reverse_view', 'query', 'drop', 'qcache'):
        return model
    if k == 'facet_collection':
        return model.map_tags(lambda t: t.split('::', 1)[0] if '::' in t and not t.startswith(':') else t)
    if k.startswith('filter_packages_tags'):
        return model.keep_packages_tags(make_pt_pred(op['pred']))
    if k.startswith('filter_packages'):
        return model.keep_packages(make_pred(op['pred']))
    if k.startswith('filter_tags'):
        return model.keep_tags(make_pred(op['pred']))
    return model.choose(op['names'])


def gen_insert(r, model, pool, single, future=None, avoid=(), safe=False):
    """avoid: further names the package must be fresh against (the other object of a live pair).
    safe: the insert cannot take the known-defect path (a multi-character name only goes under tags that already
    have packages), so a live derived pair stays as the library built it."""
    used = set(model.pmax) | set(model.tmax) | set(pool) | set(avoid)
    p = None
    if future and r.random() < 0.5:
        p = future.pop(r.randrange(len(future)))      # a name an earlier query step may have asked about
        if p in used:
            p = None
    if p is None:
        p = fresh_pkg(r, used | set(future or ()), single)
    if p is None:
        return None
    tags = set()
    for _ in range(r.choice([0, 1, 1, 2, 2, 3])):
        cand = sorted(model.tmax)
        if cand and r.random() < 0.55:
            tags.add(r.choice(cand))
        elif r.random() < 0.7:
            tags.add(r.choice(pool))
        else:
            t = fresh_tag(r, used | {p})
            if t is not None:
                tags.add(t)
    if safe and len(p) > 1:
        cand = sorted(model.ran())
        tags = set(r.sample(cand, min(len(cand), r.choice([1, 1, 2, 2, 3]))))
    tags.discard(p)
    tags -= set(model.pmax)       # fresh tags never collide with package names
    return {'op': 'insert', 'pkg': p, 'tags': sorted(tags)}


def gen_query(r, model, pool, future):
    """Queries by name: mostly names that are ABSENT in the role asked about (names a later insert will use,
    tags of the pool not stored yet, packages asked about as tags and vice versa, the tag-less names a
    derivation may have dropped), some present ones."""
    names = set()
    for _ in range(r.choice([1, 2, 3, 4, 6])):
        k = r.random()
        if k < 0.30 and future:
            names.add(r.choice(future))
        elif k < 0.50:
            names.add(r.choice(pool))
        elif k < 0.62 and model.pmax:
            names.add(r.choice(sorted(model.pmax)))
        elif k < 0.74 and model.tmax:
            names.add(r.choice(sorted(model.tmax)))
        elif k < 0.85:
            names.add('~absent~')
        else:
            n = fresh_pkg(r, names, r.random() < 0.5)
            if n is not None:
                names.add(n)
    return {'op': 'query', 'names': sorted(names)}


def gen_derivation(r, model, k):
    """k in [0.34, 1): the derivation slots of the chain generator."""
    if k < 0.42:
        return {'op': r.choice(['reverse', 'reverse_copy'])}
    if k < 0.445:
        return {'op': 'qcache', 'lead': r.choice(['none', 'other-collection', 'header']), 'trail': r.random() < .3}
    if k < 0.47:
        return {'op': 'copy'}
    if k < 0.56:
        return {'op': 'facet_collection'}
    if k < 0.67:
        return {'op': r.choice(['filter_packages', 'filter_packages_copy']), 'pred': gen_pred(r, model.pmax)}
    if k < 0.78:
        return {'op': r.choice(['filter_tags', 'filter_tags_copy']), 'pred': gen_pred(r, model.tmax)}
    if k < 0.89:
        kk = r.random()
        ran = sorted(model.ran())
        if kk < 0.55 and ran:
            pred = {'k': 'hastag', 'tag': r.choice(ran), 'neg': r.random() < 0.35}
        elif kk < 0.8:
            pred = {'k': 'ntags', 'min': r.choice([0, 1, 2, 3])}
        else:
            pred = {'k': 'pkg', 'pred': gen_pred(r, model.pmax)}
        return {'op': r.choice(['filter_packages_tags', 'filter_packages_tags_copy']), 'pred': pred}
    copyv = r.random() < 0.5
    cand = sorted(model.pmax)
    names = r.sample(cand, r.randint(0, len(cand))) if cand else []
    if names and r.random() < 0.2:
        names.append(r.choice(names))           # a repeated name
    if not copyv and r.random() < 0.5:
        names.insert(r.randint(0, len(names)), '~nonexistent~')
        if model.tmax and r.random() < 0.5:
            t = r.choice(sorted(model.tmax))
            if t not in model.pmax:
                names.append(t)                 # a tag name is not a package
    op = {'op': 'choose_packages_copy' if copyv else 'choose_packages', 'names': names}
    a = r.choice(['list', 'list', 'iter', 'tuple'])
    if a != 'list':
        op['as'] = a
    return op


def gen_pool(r):
    pool = []
    for _ in range(r.randint(3, 9)):
        t = fresh_tag(r, set(pool))
        if t is not None:
            pool.append(t)
    return pool


def gen_future(r, pool, single):
    future = []
    for _ in range(r.randint(2, 4)):
        n = fresh_pkg(r, set(pool) | set(future), single and r.random() < 0.7)
        if n is not None:
            future.append(n)
    return future


def gen_history(r):
    """Chain history: every derivation replaces the current DB."""
    single = r.random() < 0.4
    pool = gen_pool(r)
    future = gen_future(r, pool, single)
    ops = []
    model = Rel()
    n_ops = r.choice([2, 3, 4, 5, 6, 7, 8, 9, 10, 10])

    if r.random() < 0.8:
        op = gen_read(r, model, single, pool, future)
        ops.append(op)
        model = gen_apply(model, op)
    while len(ops) < n_ops:
        if r.random() < 0.07:
            op = gen_query(r, model, pool, future)
            ops.append(op)
            continue
        k = r.random()
        if k < 0.30:
            op = gen_insert(r, model, pool, single, future)
            if op is None:
                continue
        elif k < 0.34:
            op = gen_read(r, model, single, pool, future)
        else:
            op = gen_derivation(r, model, k)
        ops.append(op)
        model = gen_apply(model, op)
    return {'kind': 'hist', 'ops': ops}


START_KINDS = ('empty', 'tagless', 'single', 'tags-only', 'filtered-empty', 'general')


def gen_pair_history(r):
    """History with a LIVE db / db.reverse() pair: a (possibly degenerate) starting collection, v = db.reverse()
    with both kept, then inserts / queries / reads addressed to either object; the pair ends at a read, a drop or
    a derivation (the chain continues from one object) and may be formed again."""
    single = r.random() < 0.4
    pool = gen_pool(r)
    future = gen_future(r, pool, single)
    ops = []
    model = Rel()

    def push(op):
        ops.append(op)
        return gen_apply(model, op)

    start = r.choice(START_KINDS + ('general', 'general'))
    if start == 'tagless':
        # packages without any tag, read from lines like 'a', 'b:' - the tag->packages dictionary stays empty
        model = push(gen_read(r, model, single, pool, future, nlines=r.choice([1, 2, 2, 3, 4]), max_tags=0))
    elif start == 'single':
        if r.random() < 0.5:
            op = gen_read(r, model, single, pool, future, nlines=1)
            op['entries'] = [dict(e, pkgs=e['pkgs'][:1]) for e in op['entries']]
            model = push(op)
        else:
            op = gen_insert(r, model, pool, single, future)
            if op is not None:
                model = push(op)
    elif start == 'tags-only':
        # tag keys but no package: the reverse of a tag-less collection
        model = push(gen_read(r, model, single, pool, future, nlines=r.choice([1, 2, 3]), max_tags=0))
        model = push({'op': r.choice(['reverse', 'reverse', 'reverse_copy'])})
    elif start == 'filtered-empty':
        model = push(gen_read(r, model, single, pool, future))
        k = r.random()
        if k < 0.35:
            op = {'op': r.choice(['filter_packages', 'filter_packages_copy']), 'pred': {'k': 'false'}}
        elif k < 0.7:
            op = {'op': r.choice(['filter_tags', 'filter_tags_copy']), 'pred': {'k': 'false'}}
        else:
            op = {'op': r.choice(['choose_packages', 'choose_packages_copy']), 'names': []}
        model = push(op)
    elif start == 'general':
        model = push(gen_read(r, model, single, pool, future))
        for _ in range(r.choice([0, 0, 1, 2])):
            k = r.random()
            op = gen_insert(r, model, pool, single, future) if k < 0.4 else gen_derivation(r, model, max(k, 0.34))
            if op is not None:
                model = push(op)
    # 'empty': reverse() of a DB nothing was ever put into
    model = push({'op': 'reverse_view'})
    paired = True
    n_more = r.choice([2, 3, 4, 5, 6, 7, 8, 9])
    while n_more > 0:
        n_more -= 1
        other = paired and r.random() < 0.5
        tmodel = model.reversed() if other else model       # the model of the object the op addresses
        k = r.random()
        if paired:
            if k < 0.55:
                op = gen_insert(r, tmodel, pool, single, future)
            elif k < 0.72:
                op = gen_query(r, tmodel, pool, future)
            elif k < 0.79:
                op = {'op': 'reverse_view'}
            elif k < 0.86:
                op = gen_read(r, tmodel, single, pool, future)
                if r.random() < 0.5:
                    op['keep'] = 'other'
            elif k < 0.92:
                op = {'op': 'drop'}
            else:
                op = gen_derivation(r, tmodel, r.uniform(0.34, 1.0))
        else:
            if k < 0.40:
                op = {'op': 'reverse_view'}
            elif k < 0.65:
                op = gen_insert(r, tmodel, pool, single, future)
            elif k < 0.75:
                op = gen_query(r, tmodel, pool, future)
            else:
                op = gen_derivation(r, tmodel, r.uniform(0.34, 1.0))
        if op is None:
            continue
        if other:
            op['on'] = 'other'
            model = tmodel
        kind = op['op']
        if kind == 'read' and paired:
            new = gen_apply(model, op)
            model = model.reversed() if op.get('keep') == 'other' else new
            ops.append(op)
            paired = False
            continue
        model = push(op)
        if kind == 'reverse_view':
            paired = True
        elif kind == 'drop' or kind in DERIVATIONS:
            paired = False
    return {'kind': 'hist', 'ops': ops}


def _all_pred(r, names):
    names = sorted(names)
    return r.choice([{'k': 'true'}, {'k': 'true'}, {'k': 'in', 'names': names}, {'k': 'notin', 'names': []},
                     {'k': 'notin', 'names': ['~absent~']}, {'k': 'len', 'n': 99}, {'k': 'crc', 'm': 2, 'r': [0, 1]}])


def _none_pred(r, names):
    names = sorted(names)
    return r.choice([{'k': 'false'}, {'k': 'false'}, {'k': 'in', 'names': []}, {'k': 'notin', 'names': names},
                     {'k': 'in', 'names': ['~absent~']}, {'k': 'len', 'n': 0}])


def gen_live_derivation(r, model, kind=None, mode=None):
    """A derivation of the LIVE_DERIVED group whose parent stays alive (flag 'live').  mode: the argument keeps
    EVERYTHING (true-like predicates, a choice naming all packages), NOTHING, or is drawn like in the chain generator."""
    kind = kind or r.choice(LIVE_DERIVED)
    mode = mode or r.choice(['everything', 'nothing', 'some', 'some'])
    op = {'op': kind, 'live': True}
    if kind == 'facet_collection':
        return op
    if kind in ('filter_packages', 'filter_packages_copy', 'filter_tags_copy'):
        names = model.tmax if kind == 'filter_tags_copy' else model.pmax
        op['pred'] = (_all_pred(r, names) if mode == 'everything' else
                      _none_pred(r, names) if mode == 'nothing' else gen_pred(r, names))
        return op
    if kind in ('filter_packages_tags', 'filter_packages_tags_copy'):
        if mode == 'everything':
            op['pred'] = r.choice([{'k': 'ntags', 'min': 0}, {'k': 'pkg', 'pred': _all_pred(r, model.pmax)},
                                   {'k': 'hastag', 'tag': '~absent~', 'neg': True}])
        elif mode == 'nothing':
            op['pred'] = r.choice([{'k': 'ntags', 'min': 99}, {'k': 'pkg', 'pred': _none_pred(r, model.pmax)},
                                   {'k': 'hastag', 'tag': '~absent~'}])
        else:
            op['pred'] = gen_derivation(r, model, 0.8)['pred']
        return op
    # choose_packages / choose_packages_copy
    cand = sorted(model.pmax)
    if mode == 'everything':
        names = list(cand)
        r.shuffle(names)
    elif mode == 'nothing':
        names = []
    else:
        names = r.sample(cand, r.randint(0, len(cand))) if cand else []
    if names and r.random() < 0.2:
        names.append(r.choice(names))               # a repeated name
    if kind == 'choose_packages' and r.random() < 0.4:
        names.insert(r.randint(0, len(names)), '~nonexistent~')
    op['names'] = names
    a = r.choice(['list', 'list', 'iter', 'tuple'])
    if a != 'list':
        op['as'] = a
    return op


def gen_dpair_history(r):
    """History with a LIVE parent / derived-collection pair: a starting collection, child = parent.<derivation>(...) with
    BOTH kept (flag 'live'; the chain continues from the child), then inserts of fresh packages / queries addressed to
    either object ('on': 'other' = the one that is not current).  A read, a drop or a chain derivation ends the pair; a
    further live derivation (from either object) forms a new pair with that object as the parent."""
    single = r.random() < 0.5
    pool = gen_pool(r)
    future = gen_future(r, pool, single)
    ops = []
    model = Rel()
    k = r.random()
    if k < 0.06:
        pass                                            # a DB nothing was ever put into
    elif k < 0.14:
        op = gen_read(r, model, single, pool, future, nlines=r.choice([1, 2, 3, 4]), max_tags=0)     # tag-less packages
        ops.append(op)
        model = gen_apply(model, op)
    else:
        op = gen_read(r, model, single, pool, future, nlines=r.choice([1, 2, 3, 3, 4, 5, 6, 8]))
        ops.append(op)
        model = gen_apply(model, op)
        for _ in range(r.choice([0, 0, 0, 1, 2])):
            kk = r.random()
            op = gen_insert(r, model, pool, single, future) if kk < 0.4 else gen_derivation(r, model, max(kk, 0.34))
            if op is not None:
                ops.append(op)
                model = gen_apply(model, op)
    op = gen_live_derivation(r, model)
    ops.append(op)
    pown, model = model, gen_apply(model, op)
    paired, pk = True, op['op']
    n_more = r.choice([2, 3, 4, 5, 6, 7, 8, 9])
    while n_more > 0:
        n_more -= 1
        other = paired and r.random() < 0.5
        if other:
            model, pown = pown, model                   # `model` is the reference of the object the op addresses
        k = r.random()
        if paired:
            if k < 0.64:
                op = gen_insert(r, model, pool, single, future, avoid=set(pown.pmax) | set(pown.tmax), safe=r.random() < 0.6)
            elif k < 0.76:
                op = gen_query(r, model, pool, future)
            elif k < 0.85:
                op = gen_live_derivation(r, model)
            elif k < 0.89:
                op = gen_read(r, model, single, pool, future)
                if r.random() < 0.5 and pk not in DOC_SHARING:
                    op['keep'] = 'other'
            elif k < 0.92:
                op = {'op': 'drop'}
            else:
                op = gen_derivation(r, model, r.uniform(0.34, 1.0))
        else:
            if k < 0.50:
                op = gen_live_derivation(r, model)
            elif k < 0.72:
                op = gen_insert(r, model, pool, single, future)
            elif k < 0.80:
                op = gen_query(r, model, pool, future)
            else:
                op = gen_derivation(r, model, r.uniform(0.34, 1.0))
        if op is None:
            if other:
                model, pown = pown, model
            continue
        if other:
            op['on'] = 'other'
        kind = op['op']
        ops.append(op)
        if op.get('live'):
            pown, model = model, gen_apply(model, op)
            paired, pk = True, kind
        elif kind == 'read' and paired:
            model = pown if op.get('keep') == 'other' else gen_apply(model, op)
            paired, pown = False, None
        elif kind == 'drop' or kind in DERIVATIONS:
            model = gen_apply(model, op)
            paired, pown = False, None
        else:
            model = gen_apply(model, op)
    return {'kind': 'hist', 'ops': ops}


def _ent(pkgs, tags=(), **kw):
    return dict({'pkgs': list(pkgs), 'tags': list(tags)}, **kw)


FIXED = [
    # the scenario of the repository's own test_insert / test_reverse
    {'kind': 'hist', 'ops': [{'op': 'insert', 'pkg': 'test', 'tags': ['a', 'b']}, {'op': 'reverse'}]},
    # same shape with a one-character name (the defect cannot show)
    {'kind': 'hist', 'ops': [{'op': 'insert', 'pkg': 't', 'tags': ['a', 'b']}, {'op': 'reverse'},
                             {'op': 'insert', 'pkg': 'u', 'tags': ['t']}, {'op': 'reverse_copy'}]},
    # tag-less packages through reverse / filters
    {'kind': 'hist', 'ops': [{'op': 'read', 'entries': [{'pkgs': ['p1'], 'tags': []}, {'pkgs': ['p2', 'p3'], 'tags': ['use::a', 'k']},
                                                        {'pkgs': ['p4'], 'tags': ['k'], 'nl': False}], 'form': 'list'},
                             {'op': 'reverse'}, {'op': 'insert', 'pkg': 'z', 'tags': ['p1', 'p2']},
                             {'op': 'filter_tags', 'pred': {'k': 'notin', 'names': ['p2']}}, {'op': 'reverse_copy'},
                             {'op': 'facet_collection'}, {'op': 'filter_packages_tags', 'pred': {'k': 'ntags', 'min': 1}}]},
    # ---- live db / db.reverse() pairs on degenerate starting collections -------------------------------------
    # empty DB: inserts into the original and into the view (single- and multi-character names)
    {'kind': 'hist', 'ops': [{'op': 'reverse_view'}, {'op': 'insert', 'pkg': 'p', 'tags': ['use::a', 'k']},
                             {'op': 'insert', 'pkg': 'q', 'tags': ['p'], 'on': 'other'},
                             {'op': 'insert', 'pkg': 'r', 'tags': ['k', 'q'], 'on': 'other'},
                             {'op': 'insert', 'pkg': 'lib9', 'tags': ['k', 'zz']},
                             {'op': 'insert', 'pkg': 'x11-y', 'tags': ['lib9', 'n1'], 'on': 'other'}]},
    {'kind': 'hist', 'ops': [{'op': 'reverse_view'}, {'op': 'insert', 'pkg': 'u', 'tags': ['v', 'w'], 'on': 'other'},
                             {'op': 'query', 'names': ['u', 'v', 'zz', '~absent~']},
                             {'op': 'insert', 'pkg': 'zz', 'tags': []}, {'op': 'insert', 'pkg': 't', 'tags': ['u']},
                             {'op': 'drop', 'on': 'other'}, {'op': 'filter_packages', 'pred': {'k': 'true'}}]},
    # packages without any tag ('a', 'b:'): the tag dictionary is empty when the view is made
    {'kind': 'hist', 'ops': [{'op': 'read', 'entries': [_ent(['a']), _ent(['b'], bare=':'), _ent(['c3'], bare=': ')], 'form': 'list'},
                             {'op': 'reverse_view'}, {'op': 'query', 'names': ['a', 'k', 'q', '~absent~'], 'on': 'other'},
                             {'op': 'insert', 'pkg': 'q', 'tags': ['a', 'c3'], 'on': 'other'},
                             {'op': 'insert', 'pkg': 'd', 'tags': ['k', 'q']},
                             {'op': 'insert', 'pkg': 'e', 'tags': ['b', 'f'], 'on': 'other'},
                             {'op': 'insert', 'pkg': 'g7', 'tags': ['k']}]},
    # a single package
    {'kind': 'hist', 'ops': [{'op': 'read', 'entries': [_ent(['solo'], ['use::a', 'k'])]},
                             {'op': 'reverse_view'}, {'op': 'insert', 'pkg': 'm', 'tags': ['solo'], 'on': 'other'},
                             {'op': 'insert', 'pkg': 'p2', 'tags': ['k', 'm']}, {'op': 'query', 'names': ['p2', 'solo', 'nope']},
                             {'op': 'read', 'entries': [_ent(['n1', 'n2'], ['k'])], 'keep': 'other'},
                             {'op': 'insert', 'pkg': 'w', 'tags': ['solo', 'p2']}]},
    # tag keys but no package (reverse of a tag-less collection): the package dictionary is empty
    {'kind': 'hist', 'ops': [{'op': 'read', 'entries': [_ent(['a']), _ent(['b1'], bare=':')], 'form': 'stringio'}, {'op': 'reverse'},
                             {'op': 'reverse_view'}, {'op': 'insert', 'pkg': 'p', 'tags': ['a', 'b1']},
                             {'op': 'insert', 'pkg': 'x', 'tags': ['p'], 'on': 'other'}, {'op': 'reverse_view'},
                             {'op': 'insert', 'pkg': 'y', 'tags': ['a', 'x'], 'on': 'other'},
                             {'op': 'insert', 'pkg': 'z', 'tags': ['y']}]},
    # everything filtered away, then a view
    {'kind': 'hist', 'ops': [{'op': 'read', 'entries': [_ent(['a', 'b'], ['k', 'use::a']), _ent(['c'], ['k'])]},
                             {'op': 'filter_tags', 'pred': {'k': 'false'}}, {'op': 'reverse_view'},
                             {'op': 'query', 'names': ['a', 'b', 'c', 'k'], 'on': 'other'},
                             {'op': 'insert', 'pkg': 'd', 'tags': ['k']}, {'op': 'insert', 'pkg': 'e', 'tags': ['a', 'd'], 'on': 'other'}]},
    # ---- live parent / derived-collection pairs ('live': the parent stays alive next to the result) ---------------
    # a filter that keeps EVERYTHING; inserts under a tag both hold, into the parent and into the child
    {'kind': 'hist', 'ops': [{'op': 'read', 'entries': [_ent(['a', 'b'], ['k', 'use::a']), _ent(['c'], ['k']), _ent(['d'])]},
                             {'op': 'filter_packages', 'pred': {'k': 'true'}, 'live': True},
                             {'op': 'insert', 'pkg': 'e', 'tags': ['k'], 'on': 'other'},
                             {'op': 'insert', 'pkg': 'f', 'tags': ['k', 'use::a', 'n']},
                             {'op': 'query', 'names': ['e', 'f', 'k', 'n'], 'on': 'other'},
                             {'op': 'insert', 'pkg': 'lib7', 'tags': ['k']}, {'op': 'insert', 'pkg': 'g', 'tags': []}]},
    # a choice naming all packages, then the copying tag filter keeping everything, from the parent again
    {'kind': 'hist', 'ops': [{'op': 'read', 'entries': [_ent(['a'], ['k', 'zz']), _ent(['b2'], ['k']), _ent(['c'], ['zz'])]},
                             {'op': 'choose_packages', 'names': ['c', 'b2', 'a', 'a'], 'live': True},
                             {'op': 'insert', 'pkg': 'd', 'tags': ['zz']}, {'op': 'insert', 'pkg': 'e9', 'tags': ['k', 'zz'], 'on': 'other'},
                             {'op': 'filter_tags_copy', 'pred': {'k': 'true'}, 'live': True},
                             {'op': 'insert', 'pkg': 'f', 'tags': ['k'], 'on': 'other'}, {'op': 'insert', 'pkg': 'g', 'tags': ['k', 'zz']},
                             {'op': 'filter_packages_tags_copy', 'pred': {'k': 'ntags', 'min': 0}, 'live': True, 'on': 'other'},
                             {'op': 'insert', 'pkg': 'h', 'tags': ['zz']}, {'op': 'insert', 'pkg': 'i', 'tags': ['zz'], 'on': 'other'}]},
    # filters that keep NOTHING: two empty children of the same parent, one after the other
    {'kind': 'hist', 'ops': [{'op': 'read', 'entries': [_ent(['a', 'b'], ['k']), _ent(['c'], ['k', 'x::y'])]},
                             {'op': 'filter_packages_copy', 'pred': {'k': 'false'}, 'live': True},
                             {'op': 'insert', 'pkg': 'x', 'tags': ['k']}, {'op': 'insert', 'pkg': 'y', 'tags': ['k'], 'on': 'other'},
                             {'op': 'choose_packages_copy', 'names': [], 'live': True},
                             {'op': 'insert', 'pkg': 'z', 'tags': ['k', 'x::y'], 'on': 'other'}, {'op': 'insert', 'pkg': 'w', 'tags': ['k']},
                             {'op': 'filter_packages_tags', 'pred': {'k': 'ntags', 'min': 99}, 'live': True},
                             {'op': 'insert', 'pkg': 'v', 'tags': ['k']}]},
    # facet_collection next to its parent (one-character names: the known insert defect cannot show)
    {'kind': 'hist', 'ops': [{'op': 'read', 'entries': [_ent(['a'], ['use::a', 'use::b', 'k']), _ent(['b'], ['use::a', 'role::x'])]},
                             {'op': 'facet_collection', 'live': True}, {'op': 'insert', 'pkg': 'c', 'tags': ['use', 'k']},
                             {'op': 'insert', 'pkg': 'd', 'tags': ['use::a', 'k'], 'on': 'other'},
                             {'op': 'insert', 'pkg': 'e', 'tags': ['role'], 'on': 'other'}]},
    # queries on absent names in a chain: a later insert uses the names asked about
    {'kind': 'hist', 'ops': [{'op': 'read', 'entries': [_ent(['a'], ['k']), _ent(['b'])]},
                             {'op': 'query', 'names': ['c', 'k', 'zz', 'a', '~absent~']},
                             {'op': 'insert', 'pkg': 'c', 'tags': ['k', 'zz']}, {'op': 'query', 'names': ['c', 'd', 'zz']},
                             {'op': 'filter_tags', 'pred': {'k': 'in', 'names': ['zz']}}, {'op': 'query', 'names': ['a', 'b', 'k']},
                             {'op': 'insert', 'pkg': 'd', 'tags': ['zz', 'k']}]},
]


PAIR_HISTORIES = {'quick': 20000, 'thorough': 800000}
DPAIR_HISTORIES = {'quick': 8000, 'thorough': 320000}


def cases(ctx):
    if ctx.shard == 0:
        for c in FIXED:
            yield c
    r = ctx.rng('hist')
    for _ in range(ctx.size(HISTORIES['quick'], HISTORIES['thorough'])):
        yield gen_history(r)
    r = ctx.rng('pair')
    for _ in range(ctx.size(PAIR_HISTORIES['quick'], PAIR_HISTORIES['thorough'])):
        yield gen_pair_history(r)
    r = ctx.rng('dpair')
    for _ in range(ctx.size(DPAIR_HISTORIES['quick'], DPAIR_HISTORIES['thorough'])):
        yield gen_dpair_history(r)


# floors: about half of what the unchanged tree measures (quick: minimum over seeds 0-3, regenerated after the live
# derived-pair workload was added; thorough = quick x 40, validated on a thorough run).  The pair:* / view-start:* / q:*
# floors make a run that never drives the live reverse-pair and query classes INCONCLUSIVE; the dpair:* floors do the same
# for the live parent / derived-collection pairs: per derivation kind (pair formed in each of the four argument classes,
# inserts into genuine pairs, inserts under a tag BOTH collections hold) and per side inserted into.  Counters that exist
# only because of the open known finding (rebuilds, known-defect-*) and pair:read-partner-* (which of two accepted
# behaviours the implementation shows) deliberately have no floor.
_OPS_Q = {'dpair:formed/choose_packages/keeps-everything': 250, 'dpair:formed/choose_packages/keeps-nothing': 230,
          'dpair:formed/choose_packages/keeps-some': 150, 'dpair:formed/choose_packages/parent-empty': 230,
          'dpair:formed/choose_packages_copy/keeps-everything': 240,
          'dpair:formed/choose_packages_copy/keeps-nothing': 240, 'dpair:formed/choose_packages_copy/keeps-some': 150,
          'dpair:formed/choose_packages_copy/parent-empty': 230, 'dpair:formed/facet_collection/keeps-some': 660,
          'dpair:formed/facet_collection/parent-empty': 220, 'dpair:formed/filter_packages/keeps-everything': 280,
          'dpair:formed/filter_packages/keeps-nothing': 250, 'dpair:formed/filter_packages/keeps-some': 130,
          'dpair:formed/filter_packages/parent-empty': 240, 'dpair:formed/filter_packages_copy/keeps-everything': 280,
          'dpair:formed/filter_packages_copy/keeps-nothing': 250, 'dpair:formed/filter_packages_copy/keeps-some': 120,
          'dpair:formed/filter_packages_copy/parent-empty': 220,
          'dpair:formed/filter_packages_tags/keeps-everything': 270,
          'dpair:formed/filter_packages_tags/keeps-nothing': 210, 'dpair:formed/filter_packages_tags/keeps-some': 160,
          'dpair:formed/filter_packages_tags/parent-empty': 220,
          'dpair:formed/filter_packages_tags_copy/keeps-everything': 270,
          'dpair:formed/filter_packages_tags_copy/keeps-nothing': 220,
          'dpair:formed/filter_packages_tags_copy/keeps-some': 150,
          'dpair:formed/filter_packages_tags_copy/parent-empty': 230,
          'dpair:formed/filter_tags_copy/keeps-everything': 240, 'dpair:formed/filter_tags_copy/keeps-nothing': 250,
          'dpair:formed/filter_tags_copy/keeps-some': 160, 'dpair:formed/filter_tags_copy/parent-empty': 220,
          'dpair:insert-class/keeps-everything': 2800, 'dpair:insert-class/keeps-nothing': 2300,
          'dpair:insert-class/keeps-some': 2100, 'dpair:insert-class/parent-empty': 2500,
          'dpair:insert-into-child': 4900, 'dpair:insert-into-parent': 4900, 'dpair:insert-multichar-name': 4000,
          'dpair:insert-under-tag-of-both': 3400, 'dpair:insert-under-tag-of-both/choose_packages': 460,
          'dpair:insert-under-tag-of-both/choose_packages_copy': 470,
          'dpair:insert-under-tag-of-both/filter_packages': 450,
          'dpair:insert-under-tag-of-both/filter_packages_copy': 470,
          'dpair:insert-under-tag-of-both/filter_packages_tags': 460,
          'dpair:insert-under-tag-of-both/filter_packages_tags_copy': 470,
          'dpair:insert-under-tag-of-both/filter_tags_copy': 410, 'dpair:insert/choose_packages': 1200,
          'dpair:insert/choose_packages_copy': 1200, 'dpair:insert/facet_collection': 890,
          'dpair:insert/filter_packages': 1200, 'dpair:insert/filter_packages_copy': 1200,
          'dpair:insert/filter_packages_tags': 1200, 'dpair:insert/filter_packages_tags_copy': 1200,
          'dpair:insert/filter_tags_copy': 1200, 'dpair:op:choose_packages': 900, 'dpair:op:choose_packages_copy': 910,
          'dpair:op:facet_collection': 940, 'dpair:op:filter_packages': 930, 'dpair:op:filter_packages_copy': 890,
          'dpair:op:filter_packages_tags': 880, 'dpair:op:filter_packages_tags_copy': 900,
          'dpair:op:filter_tags_copy': 920, 'dpair:op:insert': 11500, 'dpair:op:query': 2100, 'dpair:op:read': 710,
          'hist:live-derived-pair-with-insert': 3600, 'hist:live-pair-with-insert': 8500, 'op:choose_packages': 6600,
          'op:choose_packages_copy': 6600, 'op:copy': 5000, 'op:drop': 3000, 'op:facet_collection': 10000,
          'op:filter_packages': 6600, 'op:filter_packages_copy': 6700, 'op:filter_packages_tags': 6500,
          'op:filter_packages_tags_copy': 6400, 'op:filter_tags': 5700, 'op:filter_tags_copy': 6700, 'op:insert': 65500,
          'op:query': 17000, 'op:read': 31500, 'op:reverse': 4700, 'op:reverse_copy': 4300, 'op:reverse_view': 18000,
          'pair:insert-multichar-name': 11500, 'pair:insert-on-original': 11000, 'pair:insert-on-view': 11000,
          'pair:insert/both-empty': 4400, 'pair:insert/general': 6700, 'pair:insert/no-packages': 1600,
          'pair:insert/no-tags': 2200, 'pair:insert/single-package': 2600, 'pair:op:insert': 22500,
          'pair:op:query': 7000, 'pair:op:read': 2800, 'pair:op:reverse_view': 18000, 'q:absent-name-queries': 207500,
          'q:present-name-queries': 31000, 'q:with-live-derived-partner': 2100, 'q:with-live-partner': 7000,
          'view-start:both-empty': 4300, 'view-start:general': 7200, 'view-start:no-packages': 1500,
          'view-start:no-tags': 2100, 'view-start:single-package': 2700, 'read:line-with-empty-tag-name': 5500, 'insert:without-tags': 12000, 'q:multi-name-query': 20000, 'called-through-deprecated-alias': 3000, 'q:bound-method-called-after-lookup-on-another-object': 100000, 'op:qcache': 2400, 'qcache:lead=other-collection': 800, 'qcache:lead=header': 800}
_OPS_T = dict((k, v * 40) for k, v in _OPS_Q.items())
FLOORS = {'quick': {'nontrivial': 19500, 'monitors': {'M': 210000, 'M.pair': 50000, 'M.dpair': 22000, 'M.query': 310000},
                    'counters': _OPS_Q},
          'thorough': {'nontrivial': 780000, 'monitors': {'M': 8400000, 'M.pair': 2000000, 'M.dpair': 880000, 'M.query': 12400000},
                       'counters': _OPS_T}}


def conclusive(tier, counters, monitor_evals, extra):
    """K8 is auxiliary: detached (private attributes renamed) is recorded and does not change the verdict,
    but an attached K8 that never evaluated is a broken monitor (same for its evaluation on live pairs)."""
    if not any('K8' in d for d in extra.get('detached_monitors', [])):
        if monitor_evals.get('K8', 0) == 0:
            return 'contract monitor K8 is attached but was never evaluated'
        if monitor_evals.get('K8.pair', 0) == 0:
            return 'contract monitor K8 is attached but was never evaluated on a live db / db.reverse() pair'
        if monitor_evals.get('K8.dpair', 0) == 0:
            return 'contract monitor K8 is attached but was never evaluated on a live parent / derived-collection pair'
    return None


LEVEL_TEXT = ('Runtime monitoring: seeded histories (read / insert / 12 derivation kinds / query steps, <= ~12 operations) are executed '
              'on the live debtags.DB, as chains (each derivation replaces the DB), with a LIVE db / db.reverse() pair (both objects '
              'kept, mutated and queried, formed on general and on degenerate collections) and with a LIVE parent / derived-collection '
              'pair for the eight derivations that build the child\'s tag index afresh (inserts of fresh packages into either, arguments '
              'keeping everything / nothing / some); after every step all query methods of every '
              'live object are compared with an independent reference relation (set of pairs) transformed by the same operation, the '
              'counting / iterating results are snapshotted around all query calls (queries must not change them), and a contract at the '
              'hook (K8: db and rdb describe the same pairs) is evaluated after every insert/read, on every returned DB (including the '
              'intermediate collection facet_collection builds) and on both objects of every live pair.  Held-on-observed, not a proof: '
              'reach is the generated histories.')
LEVEL_NOTE = ('Trusted: CPython, vp.models.tagrel.Rel, the generator\'s rendering of tag lines. Out of the oracle: aliasing between live '
              'relatives other than the db / db.reverse() pair and the parent / child pairs of the eight derivations that do not share the '
              'sets an insert adds to (results of filter_tags, copy and reverse_copy - which share those sets on the unchanged tree - are '
              'never mutated next to a live parent), what the other object of a pair shows after a read() beyond "old relation or swapped new relation", '
              'duplicate/re-inserted package names, blank input lines, the facet name of a tag without "::", whether keys with empty sets '
              'survive a derivation other than the package-choosing ones, iteration order.')
TECHNIQUE = ('runtime monitoring: boundary oracle M (reference relation vs. all DB query methods after every step of a seeded operation '
             'history, on the object operated on and on its live reverse() view or live parent / derived collection; before/after snapshots around query calls) decides; K8 '
             'representation contract (db/rdb mutually inverse) attached to DB.insert/read and every DB-returning method, and evaluated on '
             'both objects of every live pair, localises')
