"""C20 - the debtags database keeps its two indexes mutually inverse.

Workload: seeded *chain* histories over the live ``debian.debtags.DB``: ``read``
of generated tag lines (distinct package names, several line layouts, optional
tag filter), ``insert`` of a fresh package, and the derivations
``filter_packages[_copy]``, ``filter_packages_tags[_copy]``,
``filter_tags[_copy]``, ``choose_packages[_copy]``, ``facet_collection``,
``reverse``, ``reverse_copy``, ``copy`` - each derivation replaces the current
DB, the parent is dropped (so aliasing between live relatives, which the
sharing variants have by documented design, is never exercised).

Deciding monitor M (client boundary): after EVERY step all query methods of the
current DB (iter_packages / iter_tags / iter_packages_tags / iter_tags_packages
/ package_count / tag_count / has_package / has_tag / tags_of_package /
packages_of_tag / card, on present and on absent names) are compared with an
independent reference relation (vp.models.tagrel.Rel) transformed by the same
operation.

Auxiliary monitor K8 (contract at the hook, implemented here): after
``DB.insert``, after ``DB.read`` and on every ``DB`` returned by a derivation,
``db`` and ``rdb`` must describe the same set of (package, tag) pairs.  K8 is
evaluated on intermediate objects too (the collection ``facet_collection``
builds through ``insert``), records instead of raising, and run_case drains
its log after every step - so one known defect at an insert boundary does not
abort the history.

Classifier (mechanism keys).  ``insert-new-tag-stores-name-characters`` is
reported when, and only when, EVERY disagreement observed at an insert /
facet_collection step has this shape: the tag was not present before, the
package inserted first under it has a multi-character name q, and the tag's
package set equals  (expected - {q}) | set(q)  - i.e. the *characters* of q
stand where q should be.  Anything else gets a key naming the disagreeing
query and the operation kind.  After the known mechanism the harness rebuilds
the current DB from the reference relation and continues the history, so it
neither masks nor contaminates later steps; after any other violation the
history ends.
"""
import io
import zlib

from ..models.tagrel import Rel

PROP = 'C20'
LEVEL = 'exploration'
RULE = ('Seeded chain histories of <= 10 operations (read of generated tag lines / insert of a fresh package / '
        '12 derivation kinds, each replacing the current DB); package names of length 1 and 2..12, tags with and '
        'without a "::" facet.  A history is non-trivial when it executed >= 3 operations of >= 2 different kinds, '
        'at least one of them a derivation, and at some checked step the relation was many-to-many (a tag with '
        '>= 2 packages and a package with >= 2 tags).')
ASSUMPTIONS = [
    'vp.models.tagrel.Rel (a set of pairs + upper bounds for keys with empty sets) is the reference relation',
    'whether a package without tags (or, after reverse, a tag without packages) remains a key is left open: '
    'observed keys must lie between dom/ran of the relation and the model upper bound, extra keys must map to the empty set',
    'facet of a tag "f::x" is "f" (independent rule); the facet NAME the library gives a tag without "::" is not part of '
    'the property - it is learned from the library on a one-pair collection and only the consistency of the whole relation under that per-tag map is demanded',
    'domain guards: chain histories only; read input has distinct package names and no blank lines; inserted names are fresh '
    'w.r.t. current packages and tags; choose_packages_copy is only given names that are present',
    'the tag-line text is rendered by the harness from the structured entries of the case (layout bookkeeping is trusted)',
]
ANCHORS = ['debian.debtags:parse_tags',
           'debian.debtags:read_tag_database_both_ways',
           'debian.debtags:reverse',
           'debian.debtags:DB.read',
           'debian.debtags:DB.insert',
           'debian.debtags:DB.reverse',
           'debian.debtags:DB.facet_collection',
           'debian.debtags:DB.copy',
           'debian.debtags:DB.reverse_copy',
           'debian.debtags:DB.choose_packages',
           'debian.debtags:DB.choose_packages_copy',
           'debian.debtags:DB.filter_packages',
           'debian.debtags:DB.filter_packages_copy',
           'debian.debtags:DB.filter_packages_tags',
           'debian.debtags:DB.filter_packages_tags_copy',
           'debian.debtags:DB.filter_tags',
           'debian.debtags:DB.filter_tags_copy',
           'debian.debtags:DB.tags_of_package',
           'debian.debtags:DB.packages_of_tag',
           'debian.debtags:DB.card',
           'debian.debtags:DB.package_count',
           'debian.debtags:DB.tag_count']
MUST_REACH = ['debian.debtags:read_tag_database_both_ways', 'debian.debtags:reverse',
              'debian.debtags:DB.read', 'debian.debtags:DB.insert', 'debian.debtags:DB.reverse',
              'debian.debtags:DB.facet_collection', 'debian.debtags:DB.copy', 'debian.debtags:DB.reverse_copy',
              'debian.debtags:DB.choose_packages', 'debian.debtags:DB.filter_packages',
              'debian.debtags:DB.filter_packages_tags', 'debian.debtags:DB.filter_tags',
              'debian.debtags:DB.tags_of_package', 'debian.debtags:DB.packages_of_tag', 'debian.debtags:DB.card',
              'debian.debtags:DB.package_count', 'debian.debtags:DB.tag_count']

HISTORIES = {'quick': 32000, 'thorough': 1400000}

KNOWN_KEY = 'insert-new-tag-stores-name-characters'

DERIVATIONS = ('reverse', 'reverse_copy', 'copy', 'facet_collection',
               'filter_packages', 'filter_packages_copy', 'filter_packages_tags', 'filter_packages_tags_copy',
               'filter_tags', 'filter_tags_copy', 'choose_packages', 'choose_packages_copy')

# ---------------------------------------------------------------------------
# K8: contract at the hook

K8_LOG = []            # entries recorded since the last drain (dicts)
K8_STATE = {'evals': 0, 'attached': False, 'detached': False}


def _mismatch(db, rdb):
    p1 = set()
    for p, ts in db.items():
        for t in ts:
            p1.add((p, t))
    p2 = set()
    for t, ps in rdb.items():
        for p in ps:
            p2.add((p, t))
    return p1 - p2, p2 - p1


def _pairs(s):
    return sorted([p, t] for p, t in s)


def _k8_detach():
    from .. import contracts
    if not K8_STATE['detached']:
        K8_STATE['detached'] = True
        contracts.DETACHED.append('K8 (DB.db / DB.rdb not found)')


def setup(ctx):
    from debian import debtags
    from .. import contracts
    DB = debtags.DB

    def snap_insert(self, *a, **kw):
        try:
            return (set(self.rdb), _mismatch(self.db, self.rdb))
        except AttributeError:
            _k8_detach()
            return None

    def post_insert(old, result, self, *a, **kw):
        if old is None:
            return
        pkg = a[0] if a else kw.get('pkg')
        tags = a[1] if len(a) > 1 else kw.get('tags')
        before_keys, (m0, e0) = old
        K8_STATE['evals'] += 1
        m1, e1 = _mismatch(self.db, self.rdb)
        dm, de = m1 - m0, e1 - e0
        if not (dm or de):
            return
        new_tags = sorted(t for t in tags if t not in before_keys)
        known = bool(isinstance(pkg, str) and len(pkg) > 1 and new_tags
                     and all(self.rdb.get(t) == set(pkg) for t in new_tags)
                     and dm <= {(pkg, t) for t in new_tags}
                     and de <= {(c, t) for c in set(pkg) for t in new_tags})
        K8_LOG.append({'where': 'insert', 'obj': id(self), 'pkg': pkg, 'tags': sorted(tags), 'new_tags': new_tags,
                       'rdb_new': dict((t, sorted(self.rdb.get(t, ()))) for t in new_tags),
                       'missing': dm, 'extra': de, 'known': known})

    def post_self(method):
        def post(old, result, self, *a, **kw):
            try:
                m, e = _mismatch(self.db, self.rdb)
            except AttributeError:
                _k8_detach()
                return
            K8_STATE['evals'] += 1
            if m or e:
                K8_LOG.append({'where': method, 'obj': id(self), 'missing': m, 'extra': e})
        return post

    def post_result(method):
        def post(old, result, self, *a, **kw):
            if not isinstance(result, DB):
                return
            try:
                m, e = _mismatch(result.db, result.rdb)
            except AttributeError:
                _k8_detach()
                return
            K8_STATE['evals'] += 1
            if m or e:
                K8_LOG.append({'where': method, 'obj': id(result), 'missing': m, 'extra': e})
        return post

    n = 0
    if contracts.wrap(DB, 'insert', 'K8.calls', snapshot=snap_insert, post=post_insert) is not None:
        n += 1
    if contracts.wrap(DB, 'read', 'K8.calls', post=post_self('read')) is not None:
        n += 1
    for m in DERIVATIONS:
        if contracts.wrap(DB, m, 'K8.calls', post=post_result(m)) is not None:
            n += 1
    K8_STATE['attached'] = n > 0
    ctx.extra['known_defect_repairs'] = 0
    ctx.extra['skipped_ops'] = {}
    ctx.extra['histories_ended_early'] = 0


def finish(ctx):
    from .. import contracts
    ctx.monitor_evals['K8'] += K8_STATE['evals']
    K8_STATE['evals'] = 0
    contracts.flush_evals(ctx)


def k8_usable():
    return K8_STATE['attached'] and not K8_STATE['detached']


# ---------------------------------------------------------------------------
# predicates (JSON specs -> pure callables; the same callable is used on the
# live DB and on the model)

def make_pred(spec):
    k = spec['k']
    if k == 'true':
        return lambda x: True
    if k == 'false':
        return lambda x: False
    if k == 'in':
        s = frozenset(spec['names'])
        return lambda x: x in s
    if k == 'notin':
        s = frozenset(spec['names'])
        return lambda x: x not in s
    if k == 'crc':
        m, rs = spec['m'], frozenset(spec['r'])
        return lambda x: zlib.crc32(x.encode('utf-8')) % m in rs
    if k == 'len':
        n = spec['n']
        return lambda x: len(x) <= n
    if k == 'faceted':
        neg = bool(spec.get('neg'))
        return lambda x: ('::' in x) != neg
    raise ValueError('unknown predicate %r' % (spec,))


def make_pt_pred(spec):
    k = spec['k']
    if k == 'hastag':
        t, neg = spec['tag'], bool(spec.get('neg'))
        return lambda pt: (t in pt[1]) != neg
    if k == 'ntags':
        n = spec['min']
        return lambda pt: len(pt[1]) >= n
    if k == 'pkg':
        f = make_pred(spec['pred'])
        return lambda pt: f(pt[0])
    raise ValueError('unknown (pkg, tags) predicate %r' % (spec,))


# ---------------------------------------------------------------------------
# tag lines

def render_line(e, last, form):
    pk = ', '.join(e['pkgs'])
    if e['tags']:
        s = pk + e.get('sep', ': ') + ', '.join(e['tags']) + e.get('trail', '')
    else:
        s = pk + e.get('bare', '')
    if e.get('nl', True) or (form == 'stringio' and not last):
        s += '\n'
    return s


def entries_ok(entries):
    """Domain guard for read input (also protects hand-edited replay files)."""
    seen = set()
    for e in entries:
        if not e['pkgs']:
            return False
        for n in list(e['pkgs']) + list(e['tags']):
            if (not n) or n != n.strip() or ', ' in n or any(c.isspace() for c in n):
                return False
        for p in e['pkgs']:
            if ':' in p or p in seen:
                return False
            seen.add(p)
        for t in e['tags']:
            if t.endswith(':') or t.startswith(':'):
                return False
        if e['tags'] and not (e.get('sep', ': ')[:1] == ':' and e.get('sep', ': ')[1:].strip() == ''
                              and len(e.get('sep', ': ')) >= 2):
            return False
        if e.get('trail', '').strip() != '':
            return False
        if not e['tags'] and e.get('bare', '') not in ('', ':', ': ', ':  '):
            return False
    return True


# ---------------------------------------------------------------------------
# facet names

class FacetProbeError(Exception):
    pass


_FACET_CACHE = {}


def facet_of(DB, t):
    i = t.find(':')
    if i > 0 and t[i:i + 2] == '::':
        return t[:i]                       # independent rule for "facet::name"
    if t in _FACET_CACHE:
        return _FACET_CACHE[t]
    # naming of a facet-less tag is the library's business: learn it on a one-pair collection
    from .. import contracts
    contracts._DEPTH[0] += 1               # monitors off: this is oracle work, not workload
    try:
        d = DB()
        d.insert('q', {t})                 # one-character name: the public API builds the one-pair collection
        out = d.facet_collection().tags_of_package('q')
    finally:
        contracts._DEPTH[0] -= 1
    if not isinstance(out, (set, frozenset)) or len(out) != 1 or not isinstance(next(iter(out)), str):
        raise FacetProbeError('facet_collection of the single pair (q, %r) gives tags %r' % (t, out))
    _FACET_CACHE[t] = next(iter(out))
    return _FACET_CACHE[t]


# ---------------------------------------------------------------------------
# boundary oracle M

def _srt(x):
    if isinstance(x, (set, frozenset)):
        return sorted(x)
    return x


def compare(db, rel, absent):
    """All query methods of `db` against the reference relation.
    Returns records (query, name, want, got)."""
    recs = []
    fwd, inv = rel.fwd(), rel.inv()
    dom, ran = rel.dom(), rel.ran()

    pk = list(db.iter_packages())
    pks = set(pk)
    if len(pk) != len(pks) or not (dom <= pks <= rel.pmax):
        recs.append(('iter_packages', None, {'at_least': sorted(dom), 'at_most': sorted(rel.pmax)}, sorted(pk)))
    n = db.package_count()
    if n != len(pks):
        recs.append(('package_count', None, len(pks), n))
    tg = list(db.iter_tags())
    tgs = set(tg)
    if len(tg) != len(tgs) or not (ran <= tgs <= rel.tmax):
        recs.append(('iter_tags', None, {'at_least': sorted(ran), 'at_most': sorted(rel.tmax)}, sorted(tg)))
    n = db.tag_count()
    if n != len(tgs):
        recs.append(('tag_count', None, len(tgs), n))

    items = list(db.iter_packages_tags())
    d = dict(items)
    if len(items) != len(d) or set(d) != pks:
        recs.append(('iter_packages_tags', None, sorted(pks), sorted(d)))
    ritems = list(db.iter_tags_packages())
    rd = dict(ritems)
    if len(ritems) != len(rd) or set(rd) != tgs:
        recs.append(('iter_tags_packages', None, sorted(tgs), sorted(rd)))

    for p in sorted(pks | rel.pmax | absent):
        want = fwd.get(p, set())
        got = db.tags_of_package(p)
        if not isinstance(got, (set, frozenset)) or got != want:
            recs.append(('tags_of_package', p, want, got))
        if p in d and d[p] != want:
            recs.append(('iter_packages_tags', p, want, d[p]))
        hp = db.has_package(p)
        if bool(hp) != (p in pks):
            recs.append(('has_package', p, p in pks, hp))
    for t in sorted(tgs | rel.tmax | absent):
        want = inv.get(t, set())
        got = db.packages_of_tag(t)
        if not isinstance(got, (set, frozenset)) or got != want:
            recs.append(('packages_of_tag', t, want, got))
        c = db.card(t)
        if c != len(want):
            recs.append(('card', t, len(want), c))
        if t in rd and rd[t] != want:
            recs.append(('iter_tags_packages', t, want, rd[t]))
        ht = db.has_tag(t)
        if bool(ht) != (t in tgs):
            recs.append(('has_tag', t, t in tgs, ht))
    return recs


def corrupt(expected, q):
    return (set(expected) - {q}) | set(q)


def explain_known(recs, inv, op, ins_pkg, new_tags, k8_first):
    """Classifier.  Splits the records into those that ARE the known mechanism -
    a tag->packages observation for a tag not present before the insert(s), whose
    value equals (expected - {q}) | set(q) for the multi-character package q
    inserted first under that tag - and the rest.
    Returns ({tag: q}, unexplained_records)."""
    found, rest = {}, []
    by_tag = {}
    for rec in recs:
        if rec[0] not in ('packages_of_tag', 'card', 'iter_tags_packages') or rec[1] is None:
            rest.append(rec)
        else:
            by_tag.setdefault(rec[1], []).append(rec)
    for t in sorted(by_tag):
        rs = by_tag[t]
        sets = [rec for rec in rs if rec[0] != 'card']
        E = inv.get(t, set())
        if op == 'insert':
            cands = [ins_pkg] if (t in new_tags and ins_pkg in E) else []
        else:
            cands = sorted(x for x in E if isinstance(x, str))
            if k8_first is not None:
                cands = [x for x in cands if x in k8_first.get(t, ())]
        hit = None
        for q in cands:
            if not (isinstance(q, str) and len(q) > 1):
                continue
            G = corrupt(E, q)
            if sets and all(isinstance(rec[3], (set, frozenset)) and set(rec[3]) == G for rec in sets):
                hit = q
                break
        if hit is None:
            rest.extend(rs)
            continue
        found[t] = hit
        G = corrupt(E, hit)
        rest.extend(rec for rec in rs if rec[0] == 'card' and rec[3] != len(G))
    return found, rest


def rebuild(DB, rel, pks, tgs):
    """A DB holding exactly the reference relation (keeps those observed empty
    keys that the model allows).  Assigns the two public dict attributes
    directly - `insert` cannot be used for the repair."""
    fwd, inv = rel.fwd(), rel.inv()
    d = DB()
    d.db = dict((p, set(fwd.get(p, ()))) for p in sorted(rel.dom() | (set(pks) & rel.pmax)))
    d.rdb = dict((t, set(inv.get(t, ()))) for t in sorted(rel.ran() | (set(tgs) & rel.tmax)))
    return d


# ---------------------------------------------------------------------------
# executing one history

def _skip(ctx, why):
    ctx.extra['skipped_ops'][why] = ctx.extra['skipped_ops'].get(why, 0) + 1


def _fmt_recs(recs, limit=4):
    out = []
    for q, name, want, got in recs[:limit]:
        out.append('%s(%s) = %r, reference says %r' % (q, '' if name is None else repr(name), _srt(got), _srt(want)))
    if len(recs) > limit:
        out.append('... %d more' % (len(recs) - limit))
    return '; '.join(out)


def _fmt_k8(entries, limit=2):
    out = []
    for e in entries[:limit]:
        s = 'K8 after %s: in db not in rdb %r, in rdb not in db %r' % (e['where'], _pairs(e['missing'])[:6], _pairs(e['extra'])[:6])
        if e['where'] == 'insert':
            s += ' (insert(%r, %r), tags new to rdb %r -> %r)' % (e['pkg'], e['tags'], e['new_tags'], e['rdb_new'])
        out.append(s)
    return '; '.join(out)


PAIR_OPS = ('reverse_view', 'query', 'drop')
PARTNER = '/on-live-reverse-partner'

SNAP_NAMES = ('package_count', 'tag_count', 'iter_packages', 'iter_tags', 'iter_packages_tags', 'iter_tags_packages')


def snapshot(db):
    """What the counting / iterating methods report right now (order-insensitive, plain data)."""
    return (db.package_count(), db.tag_count(), sorted(db.iter_packages()), sorted(db.iter_tags()),
            sorted((p, sorted(ts)) for p, ts in db.iter_packages_tags()),
            sorted((t, sorted(ps)) for t, ps in db.iter_tags_packages()))


def absent_of(model):
    return frozenset(['~absent~']) | (model.tmax - model.pmax) | (model.pmax - model.tmax)


def start_class(db):
    """Shape of a collection at the moment reverse() builds a live view of it (public API only)."""
    np_, nt = db.package_count(), db.tag_count()
    if np_ == 0 and nt == 0:
        return 'both-empty'
    if nt == 0:
        return 'no-tags'            # packages without any tag: the tag->packages dictionary is empty
    if np_ == 0:
        return 'no-packages'        # tag keys only (the reverse of the above): the package->tags dictionary is empty
    if np_ == 1:
        return 'single-package'
    return 'general'


_MIRROR = {'tags_of_package': 'packages_of_tag', 'iter_packages_tags': 'iter_tags_packages'}


def mirror(rec):
    """A record observed on the live reverse partner, restated for the object the operation ran on
    (the partner's packages are this object's tags).  Only the two tag-set observations have an
    image the known-defect classifier may look at; everything else is marked and never explained."""
    q = rec[0]
    if q in _MIRROR and rec[1] is not None:
        return (_MIRROR[q], rec[1], rec[2], rec[3])
    return ('@' + q, rec[1], rec[2], rec[3])


def _swap(pairs):
    return {(b, a) for a, b in pairs}


def run_case(ctx, case):
    from debian import debtags
    DB = debtags.DB
    K8_LOG[:] = []
    ops = case['ops']
    cur = DB()
    model = Rel()
    partner = None              # a live DB obtained by reverse() from cur (or the DB cur was obtained from): the
    pclass = None               # pair is symmetric while linked, so `model.reversed()` is the partner's reference
    cur_is_view = False
    executed, kinds, many_to_many, derived = 0, set(), False, False
    pair_steps, pair_inserts = 0, 0

    def prefix(i):
        return {'kind': 'hist', 'ops': ops[:i + 1]}

    for i, op in enumerate(ops):
        kind = op['op']
        new_tags = ()
        ins_pkg = None
        if partner is not None and op.get('on') == 'other':
            # the operation addresses the other object of the live pair: swap roles
            cur, partner = partner, cur
            model = model.reversed()
            cur_is_view = not cur_is_view
        # ---- domain guards (also make arbitrary replay files safe) ----------
        if kind == 'insert':
            ins_pkg = op['pkg']
            names_now = set(model.pmax) | set(model.tmax) | set(cur.iter_packages()) | set(cur.iter_tags())
            if partner is not None:
                names_now |= set(partner.iter_packages()) | set(partner.iter_tags())
            if ins_pkg in names_now or not ins_pkg or ins_pkg in op['tags']:
                _skip(ctx, 'insert-name-not-fresh')
                continue
            new_tags = frozenset(t for t in op['tags'] if not cur.has_tag(t))
        elif kind == 'read':
            if not entries_ok(op['entries']):
                _skip(ctx, 'read-input-outside-domain')
                continue
        elif kind == 'query':
            if not op.get('names') or not all(isinstance(n, str) and n for n in op['names']):
                _skip(ctx, 'query-without-names')
                continue
        elif kind == 'drop':
            if partner is None:
                _skip(ctx, 'drop-without-live-pair')
                continue
        elif kind not in DERIVATIONS and kind not in PAIR_OPS:
            raise ValueError('unknown op %r' % (kind,))

        # ---- the operation on the live object and on the model ---------------
        prev_model = model
        qfail = None
        try:
            if kind == 'insert':
                cur.insert(ins_pkg, set(op['tags']))
                nmodel = model.insert(ins_pkg, op['tags'])
                nxt = cur
            elif kind == 'read':
                form = op.get('form', 'iter')
                ents = op['entries']
                lines = [render_line(e, j == len(ents) - 1, form) for j, e in enumerate(ents)]
                if form == 'list':
                    src = lines
                elif form == 'gen':
                    src = (x for x in lines)
                elif form == 'stringio':
                    src = io.StringIO(''.join(lines))
                else:
                    src = iter(lines)
                tf = make_pred(op['tag_filter']) if op.get('tag_filter') else None
                if tf is None and not op.get('explicit_none'):
                    cur.read(src)
                else:
                    cur.read(src, tf)
                nmodel = Rel.from_lines([(e['pkgs'], e['tags']) for e in ents], tf)
                nxt = cur
            elif kind == 'reverse_view':
                # v = cur.reverse(); BOTH objects stay alive (any earlier partner is dropped)
                pclass = start_class(cur)
                nv = cur.reverse()
                if not isinstance(nv, DB):
                    ctx.violation('derivation-does-not-return-DB-reverse', 'reverse returned %r' % (type(nv),), prefix(i))
                    ctx.extra['histories_ended_early'] += 1
                    return
                partner = nv
                cur_is_view = False
                nxt, nmodel = cur, model
                ctx.count('view-start:' + pclass)
            elif kind == 'drop':
                partner = None
                nxt, nmodel = cur, model
            elif kind == 'query':
                # queries (mostly on names that are absent) must not change what the counting / iterating
                # methods report afterwards - on this object and on its live reverse partner
                objs = [('', cur)] + ([(PARTNER, partner)] if partner is not None else [])
                before = [snapshot(o) for _, o in objs]
                pkeys, tkeys = set(before[0][2]), set(before[0][3])
                fwd, inv = model.fwd(), model.inv()
                qrecs = []
                for n in op['names']:
                    got = cur.tags_of_package(n)
                    if not isinstance(got, (set, frozenset)) or got != fwd.get(n, set()):
                        qrecs.append(('tags_of_package', n, fwd.get(n, set()), got))
                    hp = cur.has_package(n)
                    if bool(hp) != (n in pkeys):
                        qrecs.append(('has_package', n, n in pkeys, hp))
                    got = cur.packages_of_tag(n)
                    if not isinstance(got, (set, frozenset)) or got != inv.get(n, set()):
                        qrecs.append(('packages_of_tag', n, inv.get(n, set()), got))
                    ht = cur.has_tag(n)
                    if bool(ht) != (n in tkeys):
                        qrecs.append(('has_tag', n, n in tkeys, ht))
                    c = cur.card(n)
                    if c != len(inv.get(n, ())):
                        qrecs.append(('card', n, len(inv.get(n, ())), c))
                    ctx.count('q:absent-name-queries', 2 * (n not in pkeys) + 3 * (n not in tkeys))
                    ctx.count('q:present-name-queries', 2 * (n in pkeys) + 3 * (n in tkeys))
                after = [snapshot(o) for _, o in objs]
                ctx.mon('M.query', len(objs))
                if partner is not None:
                    ctx.count('q:with-live-partner')
                for (who, _o), b4, af in zip(objs, before, after):
                    if b4 != af and qfail is None:
                        j = [x != y for x, y in zip(b4, af)].index(True)
                        qfail = ('%s-changed-by-queries%s' % (SNAP_NAMES[j], who),
                                 'step %d: after tags_of_package / has_package / packages_of_tag / has_tag / card on %r '
                                 '(package keys before: %r, tag keys before: %r) %s() reports %r, before the queries %r'
                                 % (i, op['names'], sorted(pkeys), sorted(tkeys), SNAP_NAMES[j], af[j], b4[j]))
                if qfail is None and qrecs:
                    qfail = ('%s-disagrees-with-reference-in-query-step' % qrecs[0][0], 'step %d: %s' % (i, _fmt_recs(qrecs)))
                nxt, nmodel = cur, model
            elif kind in ('reverse', 'reverse_copy'):
                nxt = getattr(cur, kind)()
                nmodel = model.reversed()
            elif kind == 'copy':
                nxt = cur.copy()
                nmodel = model.same()
            elif kind == 'facet_collection':
                try:
                    fmap = dict((t, facet_of(DB, t)) for t in sorted(set(model.tmax) | set(cur.iter_tags())))
                except FacetProbeError as e:
                    ctx.violation('facet-collection-of-single-pair-malformed', str(e), prefix(i))
                    ctx.extra['histories_ended_early'] += 1
                    return
                nxt = cur.facet_collection()
                nmodel = model.map_tags(lambda t: fmap[t])
            elif kind in ('filter_packages', 'filter_packages_copy'):
                f = make_pred(op['pred'])
                nxt = getattr(cur, kind)(f)
                nmodel = model.keep_packages(f)
            elif kind in ('filter_tags', 'filter_tags_copy'):
                f = make_pred(op['pred'])
                nxt = getattr(cur, kind)(f)
                nmodel = model.keep_tags(f)
            elif kind in ('filter_packages_tags', 'filter_packages_tags_copy'):
                f = make_pt_pred(op['pred'])
                nxt = getattr(cur, kind)(f)
                nmodel = model.keep_packages_tags(f)
            else:   # choose_packages / choose_packages_copy
                names = list(op['names'])
                if kind == 'choose_packages_copy':
                    dom = model.dom()
                    names = [x for x in names if x in dom or (x in model.pmax and cur.has_package(x))]
                arg = iter(names) if op.get('as') == 'iter' else (tuple(names) if op.get('as') == 'tuple' else names)
                nxt = getattr(cur, kind)(arg)
                nmodel = model.choose(names)
        except (KeyboardInterrupt, SystemExit):
            raise
        except Exception as e:
            K8_LOG[:] = []
            ctx.violation('operation-raises-%s' % kind, '%s raised %s: %s' % (kind, type(e).__name__, e), prefix(i))
            ctx.extra['histories_ended_early'] += 1
            return
        if not isinstance(nxt, DB):
            ctx.violation('derivation-does-not-return-DB-%s' % kind, '%s returned %r' % (kind, type(nxt)), prefix(i))
            ctx.extra['histories_ended_early'] += 1
            return
        if kind in DERIVATIONS:
            partner = None          # a derivation continues the chain from its result; live relatives are dropped
        cur, model = nxt, nmodel
        executed += 1
        kinds.add(kind)
        derived = derived or kind in DERIVATIONS or kind == 'reverse_view'
        ctx.count('op:' + kind)
        if partner is not None:
            pair_steps += 1
            ctx.count('pair:op:' + kind)
            if kind == 'insert':
                pair_inserts += 1
                ctx.count('pair:insert/' + pclass)
                ctx.count('pair:insert-on-' + ('view' if cur_is_view else 'original'))
                if len(ins_pkg) > 1:
                    ctx.count('pair:insert-multichar-name')
        if qfail is not None:
            K8_LOG[:] = []
            ctx.violation(qfail[0], qfail[1], prefix(i))
            ctx.extra['histories_ended_early'] += 1
            break

        # ---- monitors ---------------------------------------------------------
        k8 = list(K8_LOG)
        K8_LOG[:] = []
        absent = absent_of(model)
        ctx.mon('M')
        recs = compare(cur, model, absent)
        many_to_many = many_to_many or model.shared_tag()
        precs, pk8, pmodel = [], [], None
        if partner is not None:
            # the live partner against the swapped reference; a read() on one object of the pair is the one
            # place where the statement is silent about the other: it may keep the old relation (the
            # implementation as written: read rebinds) or follow the new one - either is accepted
            pmodel = prev_model.reversed() if kind == 'read' else model.reversed()
            ctx.mon('M.pair')
            precs = compare(partner, pmodel, absent_of(pmodel))
            if kind == 'read':
                if precs:
                    alt = model.reversed()
                    if not compare(partner, alt, absent_of(alt)):
                        precs, pmodel = [], alt
                        ctx.count('pair:read-partner-follows')
                if not precs:
                    ctx.count('pair:read-partner-keeps' if pmodel is not None and pmodel.pairs == prev_model.reversed().pairs
                              else 'pair:read-partner-other')
            if k8_usable():
                for who, o in (('object', cur), ('partner', partner)):
                    try:
                        m, e = _mismatch(o.db, o.rdb)
                    except AttributeError:
                        _k8_detach()
                        break
                    ctx.mon('K8.pair')
                    if m or e:
                        pk8.append({'where': 'pair-step/' + kind, 'who': who, 'obj': id(o), 'missing': m, 'extra': e})

        if recs or k8 or precs or pk8:
            # ---- classification -----------------------------------------------
            first, rest, k8_rest, k8_ins = {}, recs, k8, []
            prest, pk8_rest = precs, pk8
            # insert and facet_collection (which builds its result through insert) are where the known mechanism can
            # show; any other operation only if K8 itself saw a known-shaped insert inside it
            if kind in ('insert', 'facet_collection') or (k8_usable() and any(e['where'] == 'insert' and e['known'] for e in k8)):
                k8_ins = [e for e in k8 if e['where'] == 'insert' and e['known']]
                k8_rest = [e for e in k8 if e['where'] == 'insert' and not e['known']]
                k8_first = None
                if k8_usable():
                    k8_first = {}
                    for e in k8_ins:
                        for t in e['new_tags']:
                            k8_first.setdefault(t, set()).add(e['pkg'])
                for e in k8:          # a returned collection may only show what its known inserts left behind
                    if e['where'] == 'insert':
                        continue
                    dm, de = set(), set()
                    for x in k8_ins:
                        if x['obj'] == e['obj']:
                            dm |= x['missing']
                            de |= x['extra']
                    if not (e['missing'] <= dm and e['extra'] <= de):
                        k8_rest.append(e)
                # the partner shares the corrupted set: its tags_of_package / iter_packages_tags observations are
                # restated as this object's packages_of_tag / iter_tags_packages and must show the SAME value
                back = {}
                mirrored = []
                for rec in precs:
                    mrec = mirror(rec)
                    back[id(mrec)] = rec
                    mirrored.append(mrec)
                first, rest_all = explain_known(recs + mirrored, model.inv(), kind, ins_pkg, new_tags, k8_first)
                rest = [x for x in rest_all if id(x) not in back]
                prest = [back[id(x)] for x in rest_all if id(x) in back]
                dm, de = set(), set()
                for x in k8_ins:
                    if x['obj'] == id(cur):
                        dm |= x['missing']
                        de |= x['extra']
                pk8_rest = []
                for e in pk8:
                    if e['who'] == 'object':
                        ok = e['missing'] <= dm and e['extra'] <= de
                    else:
                        ok = e['missing'] <= _swap(de) and e['extra'] <= _swap(dm)
                    if not ok:
                        pk8_rest.append(e)
            if first or k8_ins:
                t0 = sorted(first)[0] if first else k8_ins[0]['new_tags'][0]
                q0 = first[t0] if first else k8_ins[0]['pkg']
                ctx.violation(KNOWN_KEY,
                              '%s: tag %r was not present; the package inserted first under it is %r, but '
                              'packages_of_tag(%r) = %r - the characters of the name - where the reference relation has %r '
                              '(tags_of_package(%r) does list the tag, so db and rdb are no longer inverse). %s'
                              % (kind, t0, q0, t0, sorted(cur.packages_of_tag(t0)), sorted(model.inv().get(t0, ())), q0,
                                 _fmt_k8([e for e in k8_ins if t0 in e['new_tags']] or k8_ins, 1)), prefix(i))
                ctx.count('known-defect-at:' + kind)
                if partner is not None:
                    ctx.count('known-defect-with-live-partner')
            if rest:
                key = '%s-disagrees-with-reference-after-%s' % (rest[0][0], kind)
                ctx.violation(key, 'step %d (%s): %s%s' % (i, kind, _fmt_recs(rest),
                                                           ('; ' + _fmt_k8(k8_rest)) if k8_rest else ''), prefix(i))
            elif prest:
                key = '%s-disagrees-with-reference-after-%s%s' % (prest[0][0], kind, PARTNER)
                ctx.violation(key, 'step %d (%s on the %s of a live db/db.reverse() pair; observed on the OTHER object): %s%s'
                              % (i, kind, 'view' if cur_is_view else 'original', _fmt_recs(prest),
                                 ('; ' + _fmt_k8(pk8_rest)) if pk8_rest else ''), prefix(i))
            elif k8_rest:
                ctx.violation('indexes-not-inverse-after-%s' % k8_rest[0]['where'],
                              'step %d (%s): %s' % (i, kind, _fmt_k8(k8_rest)), prefix(i))
            elif pk8_rest:
                ctx.violation('indexes-not-inverse-after-%s%s' % (kind, PARTNER if pk8_rest[0]['who'] == 'partner' else '/in-live-reverse-pair'),
                              'step %d (%s): on the %s: %s' % (i, kind, pk8_rest[0]['who'], _fmt_k8(pk8_rest)), prefix(i))
            if rest or prest or k8_rest or pk8_rest or not k8_usable():
                # something other than the known mechanism (or no way to repair): the state is not trusted any more
                ctx.extra['histories_ended_early'] += 1
                break
            # only the known mechanism: repair the harness's view and continue
            if partner is None:
                # chain: continue from a DB holding the reference relation
                cur = rebuild(DB, model, cur.iter_packages(), cur.iter_tags())
                again = compare(cur, model, absent)
                if again or any(_mismatch(cur.db, cur.rdb)):
                    raise RuntimeError('harness: rebuilt DB disagrees with the reference: %s' % _fmt_recs(again))
            else:
                # live pair: the objects (and whatever they share) must stay the ones the library made, so the
                # corrupted package sets are corrected IN PLACE (public dict attribute of the object inserted into)
                inv = model.inv()
                bad = set(first)
                for x in k8_ins:
                    if x['obj'] == id(cur):
                        bad.update(x['new_tags'])
                for t in sorted(bad):
                    s = cur.rdb.get(t)
                    if isinstance(s, set):
                        s.clear()
                        s.update(inv.get(t, ()))
                pm = model.reversed()
                again = compare(cur, model, absent)
                pagain = compare(partner, pm, absent_of(pm))
                if again or pagain or any(_mismatch(cur.db, cur.rdb)) or any(_mismatch(partner.db, partner.rdb)):
                    ctx.violation('live-reverse-pair-diverges-after-known-insert-defect',
                                  'step %d (%s): after correcting in place the package sets the known insert defect left '
                                  'under %r, object: %s; partner: %s' % (i, kind, sorted(bad), _fmt_recs(again) or 'agrees',
                                                                        _fmt_recs(pagain) or 'agrees'), prefix(i))
                    ctx.extra['histories_ended_early'] += 1
                    break
            ctx.extra['known_defect_repairs'] += 1

        # ---- after a read() on one object of a live pair the pair ends: continue with one of the two ----------
        if kind == 'read' and partner is not None:
            if op.get('keep') == 'other':
                cur, model = partner, pmodel
                cur_is_view = not cur_is_view
            partner = None

    if pair_steps >= 2 and pair_inserts >= 1:
        ctx.count('hist:live-pair-with-insert')
    if executed >= 3 and len(kinds) >= 2 and derived and many_to_many:
        ctx.nontrivial()


# ---------------------------------------------------------------------------
# workload

LETTERS = 'abcdefghijklmnopqrstuvwxyz'
DIGITS = '0123456789'
BODY = LETTERS + DIGITS + '+-.'
FACETS = ['use', 'role', 'works-with', 'interface', 'x', 'implemented-in', 'uitoolkit']
VALUES = ['a', 'b', 'x', 'program', 'text', 'c++', 'gtk', 'shared-lib', 'y::z']
WORDS = ['a', 'b', 'c', 'k', 'ab', 'zz', 'misc', 'special', 'todo', 'xy', 'legacy', 't']


def fresh_pkg(r, used, single):
    for _ in range(60):
        if single or r.random() < 0.2:
            n = r.choice(LETTERS + DIGITS)
        else:
            L = 2 if r.random() < 0.25 else r.randint(3, 12)
            n = r.choice(LETTERS + DIGITS) + ''.join(r.choice(BODY) for _ in range(L - 1))
            if not any(c in DIGITS for c in n):     # keeps package names apart from (prefixes of) tag words
                j = r.randrange(1, L)
                n = n[:j] + r.choice(DIGITS) + n[j + 1:]
            if r.random() < 0.15:                   # repeated characters: set(name) smaller than the name
                n = n[0] * (L - 1) + r.choice(DIGITS)
        if n not in used:
            return n
    return None


def fresh_tag(r, used):
    for _ in range(60):
        if r.random() < 0.65:
            t = r.choice(FACETS) + '::' + r.choice(VALUES)
        else:
            t = r.choice(WORDS) if r.random() < 0.7 else ''.join(r.choice(LETTERS) for _ in range(r.randint(1, 6)))
        if t not in used:
            return t
    return None


def gen_pred(r, names):
    names = sorted(names)
    k = r.random()
    if k < 0.45 and names:
        return {'k': r.choice(['in', 'in', 'notin']), 'names': r.sample(names, r.randint(0, len(names)))}
    if k < 0.70:
        m = r.choice([2, 3, 4])
        return {'k': 'crc', 'm': m, 'r': r.sample(range(m), r.randint(1, m - 1))}
    if k < 0.80:
        return {'k': 'len', 'n': r.choice([1, 2, 3, 5, 8])}
    if k < 0.90:
        return {'k': 'faceted', 'neg': r.random() < 0.5}
    return {'k': r.choice(['true', 'true', 'false'])}


def gen_read(r, state, single, pool):
    ents = []
    used = set()
    form = r.choice(['iter', 'iter', 'list', 'gen', 'stringio'])
    nlines = r.choice([0, 1, 2, 3, 3, 4, 5, 6, 8])
    for _ in range(nlines):
        pkgs = []
        for _k in range(2 if r.random() < 0.2 else 1):
            p = fresh_pkg(r, used | set(pool), single)
            if p is not None:
                pkgs.append(p)
                used.add(p)
        if not pkgs:
            continue
        tags = r.sample(pool, min(len(pool), r.choice([0, 1, 1, 2, 2, 3, 4])))
        e = {'pkgs': pkgs, 'tags': tags}
        if tags:
            sep = r.choice([': ', ': ', ': ', ':  ', ':\t'])
            if sep != ': ':
                e['sep'] = sep
            if r.random() < 0.15:
                e['trail'] = r.choice([' ', '  ', '\t'])
        else:
            b = r.choice(['', ':', ': '])
            if b:
                e['bare'] = b
        if r.random() < 0.12:
            e['nl'] = False
        ents.append(e)
    op = {'op': 'read', 'entries': ents, 'form': form}
    if r.random() < 0.25:
        op['tag_filter'] = gen_pred(r, pool)
    elif r.random() < 0.2:
        op['explicit_none'] = True
    return op


def gen_history(r):
    single = r.random() < 0.4
    pool = []
    for _ in range(r.randint(3, 9)):
        t = fresh_tag(r, set(pool))
        if t is not None:
            pool.append(t)
    ops = []
    model = Rel()
    n_ops = r.choice([2, 3, 4, 5, 6, 7, 8, 9, 10, 10])

    def apply(op):
        # generation-time state only steers argument choice; facet names of facet-less tags are approximated
        k = op['op']
        if k == 'read':
            tf = make_pred(op['tag_filter']) if op.get('tag_filter') else None
            return Rel.from_lines([(e['pkgs'], e['tags']) for e in op['entries']], tf)
        if k == 'insert':
            return model.insert(op['pkg'], op['tags'])
        if k in ('reverse', 'reverse_copy'):
            return model.reversed()
        if k == 'copy':
            return model.same()
        if k == 'facet_collection':
            return model.map_tags(lambda t: t.split('::', 1)[0] if '::' in t and not t.startswith(':') else t)
        if k.startswith('filter_packages_tags'):
            return model.keep_packages_tags(make_pt_pred(op['pred']))
        if k.startswith('filter_packages'):
            return model.keep_packages(make_pred(op['pred']))
        if k.startswith('filter_tags'):
            return model.keep_tags(make_pred(op['pred']))
        return model.choose(op['names'])

    if r.random() < 0.8:
        op = gen_read(r, model, single, pool)
        ops.append(op)
        model = apply(op)
    while len(ops) < n_ops:
        k = r.random()
        used = set(model.pmax) | set(model.tmax) | set(pool)
        if k < 0.30:
            p = fresh_pkg(r, used, single)
            if p is None:
                continue
            tags = set()
            for _ in range(r.choice([0, 1, 1, 2, 2, 3])):
                cand = sorted(model.tmax)
                if cand and r.random() < 0.55:
                    tags.add(r.choice(cand))
                elif r.random() < 0.7:
                    tags.add(r.choice(pool))
                else:
                    t = fresh_tag(r, used | {p})
                    if t is not None:
                        tags.add(t)
            tags.discard(p)
            tags -= set(model.pmax)       # fresh tags never collide with package names
            op = {'op': 'insert', 'pkg': p, 'tags': sorted(tags)}
        elif k < 0.34:
            op = gen_read(r, model, single, pool)
        elif k < 0.42:
            op = {'op': r.choice(['reverse', 'reverse_copy'])}
        elif k < 0.47:
            op = {'op': 'copy'}
        elif k < 0.56:
            op = {'op': 'facet_collection'}
        elif k < 0.67:
            op = {'op': r.choice(['filter_packages', 'filter_packages_copy']), 'pred': gen_pred(r, model.pmax)}
        elif k < 0.78:
            op = {'op': r.choice(['filter_tags', 'filter_tags_copy']), 'pred': gen_pred(r, model.tmax)}
        elif k < 0.89:
            kk = r.random()
            ran = sorted(model.ran())
            if kk < 0.55 and ran:
                pred = {'k': 'hastag', 'tag': r.choice(ran), 'neg': r.random() < 0.35}
            elif kk < 0.8:
                pred = {'k': 'ntags', 'min': r.choice([0, 1, 2, 3])}
            else:
                pred = {'k': 'pkg', 'pred': gen_pred(r, model.pmax)}
            op = {'op': r.choice(['filter_packages_tags', 'filter_packages_tags_copy']), 'pred': pred}
        else:
            copyv = r.random() < 0.5
            cand = sorted(model.pmax)
            names = r.sample(cand, r.randint(0, len(cand))) if cand else []
            if names and r.random() < 0.2:
                names.append(r.choice(names))           # a repeated name
            if not copyv and r.random() < 0.5:
                names.insert(r.randint(0, len(names)), '~nonexistent~')
                if model.tmax and r.random() < 0.5:
                    t = r.choice(sorted(model.tmax))
                    if t not in model.pmax:
                        names.append(t)                 # a tag name is not a package
            op = {'op': 'choose_packages_copy' if copyv else 'choose_packages', 'names': names}
            a = r.choice(['list', 'list', 'iter', 'tuple'])
            if a != 'list':
                op['as'] = a
        ops.append(op)
        model = apply(op)
    return {'kind': 'hist', 'ops': ops}


FIXED = [
    # the scenario of the repository's own test_insert / test_reverse
    {'kind': 'hist', 'ops': [{'op': 'insert', 'pkg': 'test', 'tags': ['a', 'b']}, {'op': 'reverse'}]},
    # same shape with a one-character name (the defect cannot show)
    {'kind': 'hist', 'ops': [{'op': 'insert', 'pkg': 't', 'tags': ['a', 'b']}, {'op': 'reverse'},
                             {'op': 'insert', 'pkg': 'u', 'tags': ['t']}, {'op': 'reverse_copy'}]},
    # tag-less packages through reverse / filters
    {'kind': 'hist', 'ops': [{'op': 'read', 'entries': [{'pkgs': ['p1'], 'tags': []}, {'pkgs': ['p2', 'p3'], 'tags': ['use::a', 'k']},
                                                        {'pkgs': ['p4'], 'tags': ['k'], 'nl': False}], 'form': 'list'},
                             {'op': 'reverse'}, {'op': 'insert', 'pkg': 'z', 'tags': ['p1', 'p2']},
                             {'op': 'filter_tags', 'pred': {'k': 'notin', 'names': ['p2']}}, {'op': 'reverse_copy'},
                             {'op': 'facet_collection'}, {'op': 'filter_packages_tags', 'pred': {'k': 'ntags', 'min': 1}}]},
]


def cases(ctx):
    if ctx.shard == 0:
        for c in FIXED:
            yield c
    r = ctx.rng('hist')
    for _ in range(ctx.size(HISTORIES['quick'], HISTORIES['thorough'])):
        yield gen_history(r)


_OPS_Q = {'op:read': 16000, 'op:insert': 26000, 'op:facet_collection': 7500, 'op:reverse': 3500, 'op:reverse_copy': 3500,
          'op:copy': 4500, 'op:choose_packages': 4800, 'op:choose_packages_copy': 4800, 'op:filter_packages': 4800,
          'op:filter_packages_copy': 4800, 'op:filter_packages_tags': 4800, 'op:filter_packages_tags_copy': 4800,
          'op:filter_tags': 4800, 'op:filter_tags_copy': 4800}
_OPS_T = dict((k, v * 43) for k, v in _OPS_Q.items())
FLOORS = {'quick': {'nontrivial': 9500, 'monitors': {'M': 100000}, 'counters': _OPS_Q},
          'thorough': {'nontrivial': 400000, 'monitors': {'M': 4300000}, 'counters': _OPS_T}}


def conclusive(tier, counters, monitor_evals, extra):
    """K8 is auxiliary: detached (private attributes renamed) is recorded and does not change the verdict,
    but an attached K8 that never evaluated is a broken monitor."""
    if monitor_evals.get('K8', 0) == 0 and not any('K8' in d for d in extra.get('detached_monitors', [])):
        return 'contract monitor K8 is attached but was never evaluated'
    return None


LEVEL_TEXT = ('Runtime monitoring: seeded chain histories (read / insert / 12 derivation kinds, <= 10 operations) are executed '
              'on the live debtags.DB; after every step all query methods are compared with an independent reference relation '
              '(set of pairs) transformed by the same operation, and a contract at the hook (K8: db and rdb describe the same '
              'pairs) is evaluated after every insert/read and on every returned DB, including the intermediate collection '
              'facet_collection builds.  Held-on-observed, not a proof: reach is the generated histories.')
LEVEL_NOTE = ('Trusted: CPython, vp.models.tagrel.Rel, the generator\'s rendering of tag lines. Out of the oracle: aliasing between live '
              'relatives (chain histories only), duplicate/re-inserted package names, blank input lines, the facet name of a tag without "::", '
              'whether keys with empty sets survive a derivation.')
TECHNIQUE = ('runtime monitoring: boundary oracle M (reference relation vs. all DB query methods after every step of a seeded operation '
             'history) decides; K8 representation contract (db/rdb mutually inverse) attached to DB.insert/read and every DB-returning method localises')
