import sys
from vp.core import shard_main
if __name__ == '__main__':
    sys.exit(shard_main(sys.argv[1:]))
