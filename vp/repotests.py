"""Helper for property modules: run the repository's own tests under the K-monitors (thorough tier, one shard)."""
import json
import os
import subprocess
import sys
import tempfile

from . import core


def run_repo_tests_under_monitors(ctx, monitors):
    """Runs pytest with the vp.pytest_monitors plugin against $VP_REPO; reports K violations whose key starts with
    one of `monitors` (e.g. ('K3', 'K4')) through ctx.violation and counts evaluations."""
    out = tempfile.mktemp(prefix='vp-kmon-', suffix='.json')
    env = dict(os.environ, VP_KMON_OUT=out, PYTHONPATH=core.VERIF + os.pathsep + os.path.join(core.REPO, 'lib'),
               PYTHONDONTWRITEBYTECODE='1', PYTHONHASHSEED='0')
    try:
        p = subprocess.run([sys.executable, '-B', '-m', 'pytest', '-q', '-p', 'no:cacheprovider', '-p', 'vp.pytest_monitors',
                            os.path.join('lib', 'debian', 'tests')], cwd=core.REPO, env=env,
                           stdout=subprocess.PIPE, stderr=subprocess.STDOUT, timeout=1800)
        if not os.path.exists(out):
            ctx.inconclusive.append('repo tests under monitors produced no summary: %s' % p.stdout.decode('utf-8', 'replace')[-500:])
            return
        with open(out) as f:
            doc = json.load(f)
    finally:
        if os.path.exists(out):
            os.unlink(out)
    for k, n in doc['evals'].items():
        if k.startswith(tuple(monitors)):
            ctx.mon('repo-tests.' + k, n)
    ctx.count('repo-tests-run')
    for v in doc['violations']:
        if v['key'].startswith(tuple(monitors)):
            ctx.violation('under-repo-tests/' + v['key'], '%s: %s' % (v['test'], v['msg']),
                          {'kind': 'repo-tests', 'test': v['test']})
