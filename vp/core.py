"""Core of the runtime-monitoring framework: seeds, tiers, sharding, verdicts,
evidence, known-findings classification, replay files.

Process model
-------------
``./check CNN quick|thorough`` starts ``python -m vp.run`` (the *parent*).  The
parent spawns N *shard* subprocesses (``subprocess.run(timeout=...)`` each in a
thread - never multiprocessing.Pool), every shard imports the live tree from
``$VP_REPO/lib`` (default /repo/lib), attaches the monitors of the property
module and drives its share of the workload.  Each shard writes one JSON result
file into a private temp dir; the parent merges them, prints the verdict lines,
writes ``evidence/CNN.json`` and replay files, and exits 0 / 1 / 2.

Every case is a JSON-able dict, so a witness is replayed by feeding exactly that
dict to the same ``run_case`` under the same monitors.
"""
from __future__ import annotations

import array
import collections
import hashlib
import importlib
import json
import os
import random
import subprocess
import sys
import tempfile
import threading
import time
import traceback

VERIF = os.path.dirname(os.path.dirname(os.path.abspath(__file__)))
REPO = os.environ.get('VP_REPO', '/repo')
PY = sys.executable

NONTRIV_CAP = 400000          # per shard: distinct-hash recording cap (conservative count)
MAX_WITNESS_PER_KEY = 3       # replay files kept per mechanism key per shard
SAMPLES_PER_SHARD = 3

SHARDS = {'quick': 4, 'thorough': 14}
WATCHDOG = {'quick': 900, 'thorough': 3 * 3600}   # seconds per shard; firing => inconclusive


class MonitorViolation(BaseException):
    """Raised by monitors (BaseException so that ``except Exception`` in the code
    under observation cannot swallow it)."""

    def __init__(self, key, msg):
        BaseException.__init__(self, '%s: %s' % (key, msg))
        self.key = key
        self.msg = msg


def bootstrap_repo():
    """Put the live tree first on sys.path and make sure that is what we import."""
    lib = os.path.realpath(os.path.join(REPO, 'lib'))
    if lib in sys.path:
        sys.path.remove(lib)
    sys.path.insert(0, lib)
    import debian
    got = os.path.realpath(debian.__file__)
    if not got.startswith(lib + os.sep):
        raise RuntimeError('debian imported from %s, expected under %s' % (got, lib))
    return lib


def case_hash(case):
    s = json.dumps(case, sort_keys=True, ensure_ascii=True, separators=(',', ':'))
    return hashlib.sha1(s.encode('ascii')).hexdigest()


def _short(obj, limit=1500):
    s = json.dumps(obj, ensure_ascii=True, sort_keys=True)
    if len(s) <= limit:
        return obj
    return {'truncated_json': s[:limit] + '...'}


class Ctx(object):
    """Per-shard state handed to the property module."""

    def __init__(self, prop, tier, seed, shard, nshards, replay=False):
        self.prop = prop
        self.tier = tier
        self.seed = seed
        self.shard = shard
        self.nshards = nshards
        self.replay = replay
        self.evaluations = 0
        self.counters = collections.Counter()      # free-form: op kinds, classes, ...
        self.monitor_evals = collections.Counter() # per monitor id
        self.nontriv = set()
        self.nontriv_seen = 0
        self.samples = []
        self.violations = []      # dicts: key, msg, case
        self.viol_count = collections.Counter()
        self.extra = {}           # property specific evidence (sets become sorted lists)
        self.current_case = None
        self.inconclusive = []
        self._tmpdirs = []

    # -- randomness -------------------------------------------------------
    def rng(self, *tags):
        return random.Random('%d/%s/%d/%s' % (self.seed, self.prop, self.shard,
                                               '/'.join(str(t) for t in tags)))

    def mine(self, index):
        """True if enumerated item number `index` belongs to this shard."""
        return index % self.nshards == self.shard

    @property
    def quick(self):
        return self.tier == 'quick'

    def size(self, quick, thorough):
        """Per-shard share of a workload given as TOTAL counts for each tier."""
        total = quick if self.tier == 'quick' else thorough
        return max(1, total // self.nshards)

    # -- bookkeeping ------------------------------------------------------
    def count(self, name, n=1):
        self.counters[name] += n

    def mon(self, name, n=1):
        self.monitor_evals[name] += n

    def nontrivial(self, case=None, key=None):
        case = self.current_case if case is None else case
        self.nontriv_seen += 1
        if len(self.nontriv) < NONTRIV_CAP:
            h = key if key is not None else case_hash(case)
            n = len(self.nontriv)
            self.nontriv.add(int(h[:16], 16))
            if len(self.nontriv) > n and len(self.samples) < SAMPLES_PER_SHARD:
                self.samples.append(_short(case))

    def violation(self, key, msg, case=None):
        case = self.current_case if case is None else case
        self.viol_count[key] += 1
        if self.viol_count[key] <= MAX_WITNESS_PER_KEY:
            self.violations.append({'key': key, 'msg': str(msg)[:2000], 'case': case})

    def check(self, cond, key, msg=''):
        """Boundary-oracle helper: record (not raise) when `cond` is false."""
        if not cond:
            self.violation(key, msg() if callable(msg) else msg)
        return cond

    def tmpdir(self):
        d = tempfile.mkdtemp(prefix='vp-%s-' % self.prop)
        self._tmpdirs.append(d)
        return d

    def cleanup(self):
        import shutil
        for d in self._tmpdirs:
            shutil.rmtree(d, ignore_errors=True)

    def result(self):
        extra = {}
        for k, v in self.extra.items():
            if isinstance(v, (set, frozenset)):
                v = sorted(v, key=repr)
            elif isinstance(v, collections.Counter):
                v = dict(v)
            extra[k] = v
        return {
            'shard': self.shard,
            'evaluations': self.evaluations,
            'counters': dict(self.counters),
            'monitor_evals': dict(self.monitor_evals),
            'nontriv_seen': self.nontriv_seen,
            'samples': self.samples,
            'violations': self.violations,
            'viol_count': dict(self.viol_count),
            'extra': extra,
            'inconclusive': self.inconclusive,
        }


def load_module(prop):
    return importlib.import_module('vp.props.%s' % prop.lower())


def run_one(ctx, mod, case):
    """Execute one case under the monitors; every failure mode becomes a recorded violation."""
    from . import contracts
    ctx.current_case = case
    ctx.evaluations += 1
    contracts.PENDING[:] = []
    try:
        mod.run_case(ctx, case)
    except MonitorViolation as e:
        if not contracts.PENDING:
            ctx.violation(e.key, e.msg, case)
    except (KeyboardInterrupt, SystemExit):
        raise
    except BaseException as e:   # harness bug or library raising where the oracle did not expect it
        tb = traceback.format_exc(limit=8)
        ctx.violation('unexpected-exception/%s' % type(e).__name__, tb, case)
    for (key, msg) in contracts.PENDING:
        ctx.violation(key, msg, case)
    contracts.PENDING[:] = []
    ctx.current_case = None


# Ambient configuration of the process a shard runs in.  None of the properties is conditional on it, so the same
# workload is spread over ordinary processes, processes with DEBUG logging switched on (every record is formatted by a
# sink handler) and processes whose locale encoding is ASCII (no UTF-8 mode, no locale coercion): what the library does
# only "when verbose" or only "on my UTF-8 machine" is observed too; a fourth kind of process turns UserWarning into an
# exception (where a statement allows warnings, the harness records them inside warnings.catch_warnings as before); the
# DEBUG-logging processes also run with `python -O` (assert statements stripped, in the library and in the harness alike -
# no verdict of the harness is an assert).  The parent picks by shard number; a replay file
# records the ambient of the shard that produced it.
AMBIENTS = ['default', 'logging-debug+optimized', 'warnings-as-errors', 'ascii-locale']
AMBIENT_STATE = {'name': 'default', 'log_records_formatted': 0}


def ambient_for(shard):
    return os.environ.get('VP_AMBIENT') or AMBIENTS[shard % len(AMBIENTS)]


def apply_ambient(name):
    AMBIENT_STATE['name'] = name
    if 'logging-debug' in name:
        import logging

        class _Sink(logging.Handler):
            def emit(self, record):
                AMBIENT_STATE['log_records_formatted'] += 1
                record.getMessage()

        root = logging.getLogger()
        root.setLevel(logging.DEBUG)
        root.addHandler(_Sink(level=logging.DEBUG))
        logging.raiseExceptions = True


def shard_main(argv):
    prop, tier, seed, shard, nshards, out = argv[0], argv[1], int(argv[2]), int(argv[3]), int(argv[4]), argv[5]
    replay = argv[6] if len(argv) > 6 else None
    apply_ambient(os.environ.get('VP_AMBIENT') or 'default')
    bootstrap_repo()
    from . import probes
    mod = load_module(prop)
    ctx = Ctx(prop, tier, seed, shard, nshards, replay=bool(replay))
    reach = probes.AnchorReach(getattr(mod, 'ANCHORS', []))
    t0 = time.time()
    try:
        if hasattr(mod, 'setup'):
            mod.setup(ctx)
        if AMBIENT_STATE['name'] == 'warnings-as-errors':
            # installed after the imports (the package itself warns at import time on this Python): from here on a
            # UserWarning nobody asked for is an exception, as under `-W error::UserWarning` / pytest -W error
            import warnings
            warnings.filterwarnings('error', category=UserWarning)
            # the one warning the library gives by design in this sandbox (python3-apt is absent), established on the unchanged tree
            warnings.filterwarnings('default', message="Parsing of Deb822 data with python3-apt's apt_pkg was requested", category=UserWarning)
        reach.start()
        if replay:
            with open(replay) as f:
                doc = json.load(f)
            run_one(ctx, mod, doc['case'])
        else:
            for case in mod.cases(ctx):
                run_one(ctx, mod, case)
        if hasattr(mod, 'finish'):
            mod.finish(ctx)
    finally:
        reach.stop()
        ctx.cleanup()
    res = ctx.result()
    for v in res['violations']:
        v['ambient'] = AMBIENT_STATE['name']
        v['hashseed'] = int(os.environ.get('PYTHONHASHSEED') or 0)
    res['counters']['ambient:%s:evaluations' % AMBIENT_STATE['name']] = res['evaluations']
    if 'logging-debug' in AMBIENT_STATE['name']:
        res['counters']['ambient:logging-debug:log-records-formatted'] = AMBIENT_STATE['log_records_formatted']
    if 'optimized' in AMBIENT_STATE['name']:
        res['counters']['ambient:optimized:sys.flags.optimize=%d' % sys.flags.optimize] = 1
    if AMBIENT_STATE['name'] == 'ascii-locale':
        import locale
        res['counters']['ambient:ascii-locale:preferred-encoding=%s' % locale.getpreferredencoding(False)] = 1
    res['anchor_reach'] = reach.report()
    res['wall_s'] = time.time() - t0
    hashes = array.array('Q', sorted(ctx.nontriv))
    with open(out + '.hashes', 'wb') as f:
        hashes.tofile(f)
    with open(out, 'w') as f:
        json.dump(res, f)
    return 0


# ---------------------------------------------------------------------------
# parent

def load_known():
    path = os.path.join(VERIF, 'known_findings.json')
    with open(path) as f:
        doc = json.load(f)
    return doc['findings']


def _spawn(prop, tier, seed, shard, nshards, out, replay, results, errors):
    env = dict(os.environ)
    # str hash randomisation: fixed per shard (deterministic), but not the same everywhere - set/dict-of-str iteration
    # orders inside the library differ from shard to shard
    env['PYTHONHASHSEED'] = os.environ.get('VP_HASHSEED') or str(shard)
    env['PYTHONDONTWRITEBYTECODE'] = '1'
    env['PYTHONPATH'] = VERIF + os.pathsep + os.path.join(REPO, 'lib')
    env['VP_REPO'] = REPO
    ambient = ambient_for(shard)
    if replay and not os.environ.get('VP_AMBIENT'):
        try:
            with open(replay) as f:
                ambient = json.load(f).get('ambient') or 'default'
        except (OSError, ValueError):
            ambient = 'default'
    env['VP_AMBIENT'] = ambient
    if replay and not os.environ.get('VP_HASHSEED'):
        try:
            with open(replay) as f:
                env['PYTHONHASHSEED'] = str(json.load(f).get('hashseed') or 0)
        except (OSError, ValueError):
            pass
    if ambient == 'ascii-locale':
        env.update({'LC_ALL': 'C', 'LANG': 'C', 'PYTHONCOERCECLOCALE': '0', 'PYTHONUTF8': '0', 'PYTHONIOENCODING': 'utf-8'})
    cmd = [PY, '-B'] + (['-O'] if 'optimized' in ambient else []) + ['-m', 'vp.shard', prop, tier, str(seed), str(shard), str(nshards), out]
    if replay:
        cmd.append(replay)
    try:
        p = subprocess.run(cmd, env=env, cwd=VERIF, stdout=subprocess.PIPE, stderr=subprocess.STDOUT,
                           timeout=WATCHDOG[tier])
        if p.returncode != 0 or not os.path.exists(out):
            errors.append('shard %d exited %d: %s' % (shard, p.returncode,
                                                     p.stdout.decode('utf-8', 'replace')[-3000:]))
            return
        with open(out) as f:
            res = json.load(f)
        h = array.array('Q')
        with open(out + '.hashes', 'rb') as f:
            data = f.read()
        h.frombytes(data)
        res['_hashes'] = h
        res['_stdout'] = p.stdout.decode('utf-8', 'replace')[-2000:]
        results.append(res)
    except subprocess.TimeoutExpired:
        errors.append('shard %d: watchdog (%ds) fired' % (shard, WATCHDOG[tier]))


def parent_main(prop, tier, seed, replay=None):
    t0 = time.time()
    prop = prop.upper()
    # importing the module in the parent only for its metadata (no repo import needed)
    bootstrap_repo()
    mod = load_module(prop)
    nshards = 1 if replay else int(os.environ.get('VP_SHARDS', SHARDS[tier]))
    tmp = tempfile.mkdtemp(prefix='vp-run-%s-' % prop)
    results, errors, threads = [], [], []
    try:
        for s in range(nshards):
            out = os.path.join(tmp, 'shard%d.json' % s)
            th = threading.Thread(target=_spawn, args=(prop, tier, seed, s, nshards, out, replay, results, errors))
            th.start()
            threads.append(th)
        for th in threads:
            th.join()
    finally:
        import shutil
        shutil.rmtree(tmp, ignore_errors=True)
    return conclude(prop, tier, seed, mod, results, errors, time.time() - t0, replay)


def conclude(prop, tier, seed, mod, results, errors, wall, replay):
    known = [k for k in load_known() if k['property'] == prop and k['status'] == 'open']
    known_keys = {k['key']: k for k in known}
    evaluations = sum(r['evaluations'] for r in results)
    counters = collections.Counter()
    monitor_evals = collections.Counter()
    viol_count = collections.Counter()
    extra = {}
    samples, violations, inconclusive = [], [], list(errors)
    allh = set()
    nontriv_seen = 0
    reach = {}
    for r in sorted(results, key=lambda r: r['shard']):
        counters.update(r['counters'])
        monitor_evals.update(r['monitor_evals'])
        viol_count.update(r['viol_count'])
        samples.extend(r['samples'][:2])
        violations.extend(r['violations'])
        inconclusive.extend(r['inconclusive'])
        allh.update(r['_hashes'])
        nontriv_seen += r['nontriv_seen']
        for k, v in r['extra'].items():
            if isinstance(v, list):
                cur = extra.setdefault(k, [])
                for x in v:
                    if x not in cur:
                        cur.append(x)
            elif isinstance(v, dict):
                cur = extra.setdefault(k, {})
                for kk, vv in v.items():
                    cur[kk] = cur.get(kk, 0) + vv
            elif isinstance(v, (int, float)):
                extra[k] = extra.get(k, 0) + v
            else:
                extra[k] = v
        for name, rep in r.get('anchor_reach', {}).items():
            cur = reach.setdefault(name, {'calls': 0, 'lines_total': rep['lines_total'], 'lines_hit': set()})
            cur['calls'] += rep['calls']
            cur['lines_hit'].update(rep['lines_hit'])
    anchor_reach = {}
    for name, cur in sorted(reach.items()):
        anchor_reach[name] = {'calls': cur['calls'], 'lines_executed': len(cur['lines_hit']),
                              'lines_total': cur['lines_total']}
    distinct = len(allh)

    # --- classify violations
    new_viol = [v for v in violations if v['key'] not in known_keys]
    known_hit = collections.Counter()
    for k, n in viol_count.items():
        if k in known_keys:
            known_hit[k] += n
    unknown_total = sum(n for k, n in viol_count.items() if k not in known_keys)

    # --- floors => inconclusive (never on a replay)
    floors = getattr(mod, 'FLOORS', {}).get(tier, {})
    if not replay:
        if not results:
            inconclusive.append('no shard produced a result')
        if distinct < floors.get('nontrivial', 2):
            inconclusive.append('distinct_nontrivial %d below floor %d' % (distinct, floors.get('nontrivial', 2)))
        for m, floor in floors.get('monitors', {}).items():
            if monitor_evals.get(m, 0) < floor:
                inconclusive.append('monitor %s evaluated %d times, floor %d' % (m, monitor_evals.get(m, 0), floor))
        for c, floor in floors.get('counters', {}).items():
            if counters.get(c, 0) < floor:
                inconclusive.append('counter %s = %d, floor %d' % (c, counters.get(c, 0), floor))
        for name in getattr(mod, 'MUST_REACH', []):
            if anchor_reach.get(name, {}).get('calls', 0) == 0:
                inconclusive.append('anchored entry point %s never called' % name)
        if hasattr(mod, 'conclusive'):
            why = mod.conclusive(tier, counters, monitor_evals, extra)
            if why:
                inconclusive.append(why)

    # --- replay files for new violations
    replay_paths = []
    if new_viol and not replay:
        rdir = os.path.join(os.environ.get('VP_REPLAY_DIR') or os.path.join(VERIF, 'replays'), prop)
        os.makedirs(rdir, exist_ok=True)
        seen_keys = collections.Counter()
        for v in new_viol:
            seen_keys[v['key']] += 1
            if seen_keys[v['key']] > MAX_WITNESS_PER_KEY:
                continue
            h = case_hash(v['case'])[:16]
            path = os.path.join(rdir, '%s.json' % h)
            with open(path, 'w') as f:
                json.dump({'property': prop, 'key': v['key'], 'msg': v['msg'], 'case': v['case'],
                           'seed': seed, 'tier': tier, 'ambient': v.get('ambient', 'default'), 'hashseed': v.get('hashseed', 0)},
                          f, indent=1, ensure_ascii=True)
            replay_paths.append((v['key'], path, v['msg']))

    # --- report
    print('== %s tier=%s seed=%d shards=%d wall=%.1fs' % (prop, tier, seed, len(results), wall))
    print('   evaluations=%d distinct_nontrivial=%d (nontrivial seen %d)' % (evaluations, distinct, nontriv_seen))
    print('   monitor_evals=%s' % json.dumps(dict(monitor_evals), sort_keys=True))
    for name, rep in anchor_reach.items():
        print('   reach %-70s calls=%-9d lines=%d/%d' % (name, rep['calls'], rep['lines_executed'], rep['lines_total']))
    if viol_count:
        print('   violation mechanisms observed: %s' % json.dumps(dict(viol_count), sort_keys=True))
    for k, n in sorted(known_hit.items()):
        print('KNOWN-FINDING: property=%s %s [%s] (observed %d times this run)' % (prop, known_keys[k]['what'], k, n))
    status = 0
    if replay:
        for v in violations:
            tag = 'KNOWN-FINDING:' if v['key'] in known_keys else 'VIOLATION'
            if tag == 'VIOLATION':
                print('VIOLATION property=%s replay=%s' % (prop, os.path.abspath(replay)))
                status = 1
            else:
                print('KNOWN-FINDING: property=%s %s [%s]' % (prop, known_keys[v['key']]['what'], v['key']))
            print('   %s: %s' % (v['key'], v['msg'][:1500]))
        if not violations:
            print('   replayed case: no violation')
    else:
        for key, path, msg in replay_paths:
            print('VIOLATION property=%s replay=%s' % (prop, path))
            print('   mechanism=%s (%d occurrences) %s' % (key, viol_count[key], msg[:600].replace('\n', ' | ')))
            status = 1
    if status == 0 and inconclusive:
        for why in inconclusive:
            print('INCONCLUSIVE property=%s reason=%s' % (prop, why[:3000]))
        status = 2
    if status == 0:
        print('HELD-ON-OBSERVED property=%s' % prop)

    if not replay:
        write_evidence(prop, tier, seed, mod, evaluations, distinct, nontriv_seen, samples, counters,
                       monitor_evals, anchor_reach, extra, unknown_total, known_hit, inconclusive, wall,
                       len(results))
    return status


def write_evidence(prop, tier, seed, mod, evaluations, distinct, nontriv_seen, samples, counters,
                   monitor_evals, anchor_reach, extra, unknown_total, known_hit, inconclusive, wall, nshards):
    cov = {
        'evaluations': evaluations,
        'distinct_nontrivial': distinct,
        'rule': mod.RULE + ' Distinct = distinct SHA-1 of the canonical case; recorded up to %d per shard '
                           '(conservative if capped; nontrivial cases seen incl. repeats: %d).' % (NONTRIV_CAP, nontriv_seen),
        'samples': samples[:6] if samples else ['<none>'],
        'exhaustive': False,
        'monitor_evals': dict(monitor_evals),
        'operation_histogram': dict(sorted(counters.items())),
        'anchor_reach': anchor_reach,
        'shards': nshards,
        'known_findings_observed': dict(known_hit),
        'verdict': ('violated' if unknown_total else ('inconclusive' if inconclusive else 'held-on-observed')),
        'inconclusive_reasons': inconclusive,
    }
    for k, v in extra.items():
        cov[k] = v
    doc = {
        'property_id': prop,
        'tier': tier,
        'seed': seed,
        'level': getattr(mod, 'LEVEL', 'exploration'),
        'coverage': cov,
        'assumptions': list(getattr(mod, 'ASSUMPTIONS', [])),
        'wall_s': round(wall, 2),
        'violations': int(unknown_total),
    }
    edir = os.environ.get('VP_EVIDENCE_DIR') or os.path.join(VERIF, 'evidence')
    os.makedirs(edir, exist_ok=True)
    path = os.path.join(edir, '%s.json' % prop)
    try:
        import jsonschema  # present in the tooling venv only; validation is best-effort here
        with open('/root/.vp/EVIDENCE.schema.json') as f:
            jsonschema.validate(doc, json.load(f))
    except ImportError:
        _mini_validate(doc)
    except FileNotFoundError:
        _mini_validate(doc)
    tmp = path + '.tmp'
    with open(tmp, 'w') as f:
        json.dump(doc, f, indent=1, ensure_ascii=True, sort_keys=True)
        f.write('\n')
    os.replace(tmp, path)


def _mini_validate(doc):
    for k in ('property_id', 'tier', 'seed', 'level', 'coverage', 'wall_s'):
        assert k in doc, k
    cov = doc['coverage']
    assert isinstance(cov['evaluations'], int) and isinstance(cov['distinct_nontrivial'], int)
    assert isinstance(cov['samples'], list) and cov['samples']
    assert isinstance(cov['rule'], str)
