"""pytest plugin: run the repository's OWN test-suite with the K-monitors attached, as one more realistic
workload (thorough tier).  Usage:  pytest -p vp.pytest_monitors   with VP_KMON_OUT=<json path>.

Every K violation is recorded with the test it happened in; the summary (evaluation counters per monitor,
violations) is written at session end.  A violation raised inside a test also fails that test, but the verdict
is taken from the summary file, not from pytest's exit code."""
import json
import os

from vp import contracts

_violations = []
_current = [None]


def pytest_configure(config):
    from vp import kmon, kmon_repro
    kmon.attach_K1()
    kmon.attach_K2()
    kmon_repro.attach_all()
    try:
        from vp.props import c06
        c06.setup(None)
    except Exception as e:      # K9 is optional here
        contracts.DETACHED.append('K9 (%s)' % type(e).__name__)


def pytest_runtest_setup(item):
    _current[0] = item.nodeid
    contracts.PENDING[:] = []
    try:
        from vp import kmon
        kmon.reset()
    except Exception:
        pass


def pytest_runtest_teardown(item, nextitem):
    for key, msg in contracts.PENDING:
        _violations.append({'test': item.nodeid, 'key': key, 'msg': msg[:500]})
    contracts.PENDING[:] = []


def pytest_sessionfinish(session, exitstatus):
    out = os.environ.get('VP_KMON_OUT')
    if out:
        with open(out, 'w') as f:
            json.dump({'evals': dict(contracts.EVALS), 'violations': _violations, 'detached': list(contracts.DETACHED),
                       'exitstatus': int(exitstatus)}, f)
