"""python -m vp.run CNN quick|thorough   |   python -m vp.run CNN --replay FILE"""
import os
import sys
from vp.core import parent_main


def main(argv):
    if len(argv) < 1:
        print(__doc__)
        return 64
    prop = argv[0]
    seed = int(os.environ.get('VERIF_SEED', '0') or 0)
    if '--replay' in argv:
        path = argv[argv.index('--replay') + 1]
        return parent_main(prop, 'quick', seed, replay=os.path.abspath(path))
    tier = argv[1] if len(argv) > 1 else os.environ.get('VERIF_TIER', 'quick')
    if tier not in ('quick', 'thorough'):
        tier = 'quick'
    return parent_main(prop, tier, seed)


if __name__ == '__main__':
    sys.exit(main(sys.argv[1:]))
