"""./check --setup : offline sanity of the framework itself (no third-party installs).
Validates MANIFEST.json and known_findings.json structurally, imports every property module."""
import json
import os
import sys

from vp import core


def main():
    core.bootstrap_repo()
    with open(os.path.join(core.VERIF, 'MANIFEST.json')) as f:
        man = json.load(f)
    assert man['version'] == 1
    for k in ('setup_cmd', 'hooks', 'checks'):
        assert k in man, k
    ids = set()
    for chk in man['checks']:
        for k in ('property_id', 'quick_cmd', 'evidence_file', 'level_claimed', 'level_note'):
            assert k in chk, (chk.get('property_id'), k)
        mod = core.load_module(chk['property_id'])
        for attr in ('PROP', 'RULE', 'cases', 'run_case'):
            assert hasattr(mod, attr), (chk['property_id'], attr)
        ids.add(chk['property_id'])
    for na in man.get('not_applicable', []):
        assert na['property_id'] not in ids
    known = core.load_known()
    for k in known:
        assert k['status'] in ('open', 'fixed') and k['property'] and k['key'] and k['what']
    try:
        import jsonschema
        with open('/root/.vp/MANIFEST.schema.json') as f:
            jsonschema.validate(man, json.load(f))
    except (ImportError, FileNotFoundError):
        pass
    print('setup ok: %d checks, %d known-finding entries, repo=%s' % (len(ids), len(known), core.REPO))
    return 0


if __name__ == '__main__':
    sys.exit(main())
