"""Reference model for the glob dialect of machine-readable debian/copyright
``Files`` fields (copyright-format 1.0), independent of the repository and of
the ``re`` / ``fnmatch`` modules.

    *      any run of characters (including '/', including the empty run)
    ?      exactly one character
    \\\\ \\* \\?   the literal character after the backslash
    \\x    (any other x, or a backslash at the very end): illegal

A pattern matches a name only if it matches the WHOLE name.

Two deliberately different algorithms are provided so that the harness can
cross-check the model against itself on every evaluation:

* ``matches``  - forward reachable-position sets (NFA simulation);
* ``distance`` - minimum number of single-character edits (insert / delete /
  substitute, applied to the NAME) that make the name match; 0 iff it matches.
  Also used for the "near miss" non-triviality rule.
"""

STAR = 0
ANY = 1
# literals are represented by the 1-character string itself


class IllegalEscape(Exception):
    pass


def parse(pattern):
    """-> tuple of tokens; raises IllegalEscape."""
    toks = []
    i, n = 0, len(pattern)
    while i < n:
        c = pattern[i]
        i += 1
        if c == '*':
            toks.append(STAR)
        elif c == '?':
            toks.append(ANY)
        elif c == '\\':
            if i >= n:
                raise IllegalEscape('backslash at end of pattern')
            c = pattern[i]
            i += 1
            if c != '\\' and c != '*' and c != '?':
                raise IllegalEscape('\\%s' % c)
            toks.append(c)
        else:
            toks.append(c)
    return tuple(toks)


def is_legal(pattern):
    try:
        parse(pattern)
    except IllegalEscape:
        return False
    return True


def has_wildcard(toks):
    return STAR in toks or ANY in toks


def _reach(toks, name):
    """Set of name positions reachable after consuming all tokens."""
    n = len(name)
    cur = {0}
    for t in toks:
        if not cur:
            break
        if t is STAR:
            cur = set(range(min(cur), n + 1))
        elif t is ANY:
            cur = {j + 1 for j in cur if j < n}
        else:
            cur = {j + 1 for j in cur if j < n and name[j] == t}
    return cur


def matches(toks, name):
    """Whole-name match."""
    return len(name) in _reach(toks, name)


def matches_prefix(toks, name):
    """True if the pattern matches SOME prefix of name (used only to classify a
    witness as 'alternative not end-anchored'; never as the oracle)."""
    return bool(_reach(toks, name))


def distance(toks, name, cap=99):
    """Minimum edits on `name` so that the pattern matches it entirely."""
    n = len(name)
    # row for zero tokens: the empty pattern matches only '', so delete j chars
    prev = list(range(n + 1))
    for t in toks:
        if t is STAR:
            row = [prev[0]]
            for j in range(1, n + 1):
                a = prev[j]
                b = row[j - 1]
                row.append(a if a < b else b)
        else:
            row = [prev[0] + 1]          # token must consume one inserted character
            for j in range(1, n + 1):
                sub = prev[j - 1] + (0 if (t is ANY or name[j - 1] == t) else 1)
                ins = prev[j] + 1        # insert a character for this token
                dele = row[j - 1] + 1    # delete name[j-1]
                m = sub
                if ins < m:
                    m = ins
                if dele < m:
                    m = dele
                row.append(m)
        prev = row
    d = prev[n]
    return d if d < cap else cap


def matches_backtrack(toks, name):
    """Third, naive implementation (recursive backtracking) used by the model's
    own self-test and by the sampled cross-check."""
    def go(i, j):
        if i == len(toks):
            return j == len(name)
        t = toks[i]
        if t is STAR:
            for k in range(j, len(name) + 1):
                if go(i + 1, k):
                    return True
            return False
        if j >= len(name):
            return False
        if t is ANY or name[j] == t:
            return go(i + 1, j + 1)
        return False
    return go(0, 0)


def matches_greedy(toks, name):
    """Fourth implementation: iterative two-pointer matcher that remembers only the
    LAST wildcard run as its single backtrack point.  Linear on literal
    mismatches, so it is the every-evaluation cross-check for LONG pattern lists
    (hundreds of characters), where the edit-distance DP is only sampled."""
    i = j = 0
    n, m = len(name), len(toks)
    star = -1
    mark = 0
    while j < n:
        if i < m and toks[i] is STAR:
            star = i
            mark = j
            i += 1
        elif i < m and toks[i] is not STAR and (toks[i] is ANY or toks[i] == name[j]):
            i += 1
            j += 1
        elif star >= 0:
            mark += 1
            j = mark
            i = star + 1
        else:
            return False
    while i < m and toks[i] is STAR:
        i += 1
    return i == m


def expand(toks, r, alphabet, maxrun=3):
    """A random literal expansion of the pattern (a name it matches)."""
    out = []
    for t in toks:
        if t is STAR:
            for _ in range(r.choice((0, 0, 1, 1, 2, maxrun))):
                out.append(r.choice(alphabet))
        elif t is ANY:
            out.append(r.choice(alphabet))
        else:
            out.append(t)
    return ''.join(out)


class GlobList(object):
    """A list of patterns as the property sees it."""

    def __init__(self, patterns):
        self.patterns = list(patterns)
        self.illegal = None
        toks = []
        for p in self.patterns:
            try:
                toks.append(parse(p))
            except IllegalEscape as e:
                self.illegal = '%r: %s' % (p, e)
                toks.append(None)
        self.toks = toks
        self.legal = self.illegal is None
        self.wild = any(t is not None and has_wildcard(t) for t in toks)

    def matches(self, name):
        assert self.legal
        for t in self.toks:
            if matches(t, name):
                return True
        return False

    def matches_greedy(self, name):
        assert self.legal
        for t in self.toks:
            if matches_greedy(t, name):
                return True
        return False

    def distance(self, name):
        assert self.legal
        best = 99
        for t in self.toks:
            d = distance(t, name)
            if d < best:
                best = d
        return best

    def prefix_semantics(self, name):
        """What an implementation answers that end-anchors only the LAST
        alternative (classification of a known mechanism, not an oracle)."""
        assert self.legal
        for t in self.toks[:-1]:
            if matches_prefix(t, name):
                return True
        return matches(self.toks[-1], name)
