"""Independent model of the ed-script subset used by `diff -e` / APT pdiffs
(append, change, delete; commands in descending line order).

Nothing here imports the repository.  Three pieces:

* make_ed_script(old_lines, new_lines) -> list of script lines
      derives the script from difflib opcodes (str or bytes lines alike);
* make_ed_script_indexed(...) -> (script, blocks)
      same script plus the exact position of every command / text block, so a
      corruptor never has to guess which lines are commands (content lines such
      as '1a' look like commands);
* parse_ed_script / apply_ed_script
      a strict reference interpreter (no regex shared with the repository),
      used to self-check generated and `diff -e` scripts before they are used
      as an oracle input.

Domain (callers must respect it): every line ends with exactly one newline
and no content line is a lone '.' - an ed script cannot carry either.
"""
import difflib


class EdScriptError(Exception):
    """The reference interpreter rejects the script (malformed / out of range)."""


def _is_bytes(*line_lists):
    for lines in line_lists:
        for l in lines:
            return isinstance(l, bytes)
    return False


def in_domain(lines):
    """True if `lines` can be carried by an ed script."""
    for l in lines:
        nl, dot = (b'\n', b'.\n') if isinstance(l, bytes) else ('\n', '.\n')
        if not l.endswith(nl) or l.count(nl) != 1 or l == dot:
            return False
    return True


def make_ed_script_indexed(old_lines, new_lines, split_replace=False):
    """-> (script, blocks); blocks = list of dicts, in script order:
         {'cmd': index of the command line, 'letter': 'a'|'c'|'d',
          'text': index of the first text line (None for d),
          'dot': index of the terminating '.' line (None for d),
          'patch': (first, last, replacement) 0-based half-open slice of the
                   list as it is at that moment}
    With split_replace a replacement of a run is emitted as `d` of the run
    followed by `a` after the preceding line (equally valid ed, different
    command mix)."""
    old_lines, new_lines = list(old_lines), list(new_lines)
    b = _is_bytes(old_lines, new_lines)

    def enc(s):
        return s.encode('ascii') if b else s
    dot = enc('.\n')
    sm = difflib.SequenceMatcher(a=old_lines, b=new_lines, autojunk=False)
    script, blocks = [], []

    def addr(i1, i2):       # 0-based half-open -> ed address of a non-empty range
        return '%d' % (i1 + 1) if i2 - i1 == 1 else '%d,%d' % (i1 + 1, i2)

    def emit(letter, address, i1, i2, text):
        blk = {'cmd': len(script), 'letter': letter, 'text': None, 'dot': None,
               'patch': (i1, i2, list(text))}
        script.append(enc('%s%s\n' % (address, letter)))
        if letter != 'd':
            blk['text'] = len(script)
            script.extend(text)
            blk['dot'] = len(script)
            script.append(dot)
        blocks.append(blk)

    for tag, i1, i2, j1, j2 in reversed(sm.get_opcodes()):
        if tag == 'equal':
            continue
        if tag == 'insert':
            emit('a', '%d' % i1, i1, i1, new_lines[j1:j2])
        elif tag == 'delete':
            emit('d', addr(i1, i2), i1, i2, [])
        elif split_replace:
            emit('d', addr(i1, i2), i1, i2, [])
            emit('a', '%d' % i1, i1, i1, new_lines[j1:j2])
        else:
            emit('c', addr(i1, i2), i1, i2, new_lines[j1:j2])
    return script, blocks


def make_ed_script(old_lines, new_lines):
    """ed script (list of lines, same type as the input lines) turning
    old_lines into new_lines: a/c/d commands in descending line order."""
    return make_ed_script_indexed(old_lines, new_lines)[0]


_DIGITS = '0123456789'


def _number(s, line):
    if not s or any(ch not in _DIGITS for ch in s):
        raise EdScriptError('bad line number in command %r' % (line,))
    return int(s)


def parse_ed_script(script):
    """Strict parse -> list of (letter, n1, n2_or_None, text_lines).
    Raises EdScriptError on anything outside the a/c/d subset."""
    script = list(script)
    b = _is_bytes(script)
    dots = (b'.\n', b'.') if b else ('.\n', '.')
    out = []
    k = 0
    while k < len(script):
        raw = script[k]
        k += 1
        line = raw.decode('latin-1') if b else raw
        if line.endswith('\n'):
            line = line[:-1]
        if not line or line[-1] not in ('a', 'c', 'd'):
            raise EdScriptError('not an a/c/d command: %r' % (raw,))
        letter, address = line[-1], line[:-1]
        parts = address.split(',')
        if len(parts) > 2:
            raise EdScriptError('too many addresses: %r' % (raw,))
        n1 = _number(parts[0], raw)
        n2 = _number(parts[1], raw) if len(parts) == 2 else None
        if letter == 'a' and n2 is not None:
            raise EdScriptError('range on append: %r' % (raw,))
        text = []
        if letter != 'd':
            while True:
                if k >= len(script):
                    raise EdScriptError('text block of %r runs to end of script' % (raw,))
                c = script[k]
                k += 1
                if c in dots:
                    break
                text.append(c)
        out.append((letter, n1, n2, text))
    return out


def to_patches(parsed, length=None):
    """Parsed commands -> (first, last, replacement) 0-based half-open slices,
    in script order.  With `length` (size of the file the script starts from)
    addresses are range-checked the way ed would."""
    patches = []
    for letter, n1, n2, text in parsed:
        if letter == 'a':
            first, last = n1, n1
        else:
            first, last = n1 - 1, (n1 if n2 is None else n2)
            if first < 0 or last <= first:
                raise EdScriptError('bad range %r,%r%s' % (n1, n2, letter))
        if length is not None:
            if last > length:
                raise EdScriptError('address %d beyond end (%d lines)' % (last, length))
            length += len(text) - (last - first)
        patches.append((first, last, list(text)))
    return patches


def apply_ed_script(old_lines, script):
    """Reference interpreter: returns the new list (old_lines untouched)."""
    lines = list(old_lines)
    for first, last, text in to_patches(parse_ed_script(script), len(lines)):
        lines = lines[:first] + text + lines[last:]
    return lines
