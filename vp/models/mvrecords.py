"""Record model for the structured multi-line fields of Dsc / Changes /
BuildInfo / PdiffIndex / Release (property C12).

Independent of the repository: the tables below are transcribed from the
documented formats (Debian policy 5.6.21/5.6.24 for Files / Checksums-*, the
.buildinfo and Release/pdiff Index layouts as documented for
``debian.deb822``), NOT read from ``cls._multivalued_fields`` - a permuted or
renamed table in the library must disagree with this one.

Nothing here parses with the library's code; ``field_blocks`` is a ten-line
splitter used only to locate the dumped lines of one field for the column
check.
"""
import re

_CK = lambda h: [h, 'size', 'name']

DOC = {
    'Dsc': {
        'files': ['md5sum', 'size', 'name'],
        'checksums-sha1': _CK('sha1'),
        'checksums-sha256': _CK('sha256'),
        'checksums-sha512': _CK('sha512'),
    },
    'Changes': {
        'files': ['md5sum', 'size', 'section', 'priority', 'name'],
        'checksums-sha1': _CK('sha1'),
        'checksums-sha256': _CK('sha256'),
        'checksums-sha512': _CK('sha512'),
    },
    'BuildInfo': {
        'checksums-md5': _CK('md5'),
        'checksums-sha1': _CK('sha1'),
        'checksums-sha256': _CK('sha256'),
        'checksums-sha512': _CK('sha512'),
    },
    'Release': {
        'md5sum': _CK('md5sum'),
        'sha1': _CK('sha1'),
        'sha256': _CK('sha256'),
        'sha512': _CK('sha512'),
    },
    'PdiffIndex': {},
}
for _h in ('SHA1', 'SHA256'):
    _l = _h.lower()
    DOC['PdiffIndex']['%s-current' % _l] = [_h, 'size']
    for _p in ('', 'x-unmerged-'):
        DOC['PdiffIndex']['%s%s-history' % (_p, _l)] = [_h, 'size', 'date']
        DOC['PdiffIndex']['%s%s-patches' % (_p, _l)] = [_h, 'size', 'date']
        DOC['PdiffIndex']['%s%s-download' % (_p, _l)] = [_h, 'size', 'filename']

# spelling of the field names as real files carry them
DISPLAY = {
    'files': 'Files', 'checksums-md5': 'Checksums-Md5', 'checksums-sha1': 'Checksums-Sha1',
    'checksums-sha256': 'Checksums-Sha256', 'checksums-sha512': 'Checksums-Sha512',
    'md5sum': 'MD5Sum', 'sha1': 'SHA1', 'sha256': 'SHA256', 'sha512': 'SHA512',
}
for _k in DOC['PdiffIndex']:
    DISPLAY[_k] = '-'.join(p.upper() if p.startswith('sha') else p.capitalize() for p in _k.split('-'))

ALIGNED = ('Release', 'PdiffIndex')          # classes with a documented size-column width
CONFIGS = [('Dsc', None), ('Changes', None), ('BuildInfo', None), ('PdiffIndex', None),
           ('Release', 'apt-ftparchive'), ('Release', 'dak')]

PLAIN = {
    'Dsc': [('Format', '3.0 (quilt)'), ('Source', 'hello'), ('Version', '2.10-3'), ('Architecture', 'any'),
            ('Maintainer', 'A. Person <a@example.org>'), ('Package-List', '\n hello deb devel optional arch=any')],
    'Changes': [('Format', '1.8'), ('Date', 'Sat, 26 Sep 2026 10:00:00 +0000'), ('Source', 'hello'),
                ('Distribution', 'unstable'), ('Description', '\n hello - friendly greeter\n second line'),
                ('Changes', '\n hello (2.10-3) unstable; urgency=medium\n .\n   * Upload.')],
    'BuildInfo': [('Format', '1.0'), ('Source', 'hello'), ('Binary', 'hello'), ('Architecture', 'amd64'),
                  ('Version', '2.10-3'), ('Build-Origin', 'Debian'), ('Build-Architecture', 'amd64')],
    'Release': [('Origin', 'Debian'), ('Label', 'Debian'), ('Suite', 'unstable'), ('Codename', 'sid'),
                ('Date', 'Sat, 26 Sep 2026 10:00:00 UTC'), ('Architectures', 'amd64 arm64'),
                ('Components', 'main contrib'), ('Description', 'Debian x.y Unstable - Not Released')],
    'PdiffIndex': [('Canonical-Path', 'dists/sid/main/binary-amd64/Packages'), ('X-Patch-Precedence', 'merged'),
                   ('X-DAK-Older-Patches', 'none')],
}


def is_ws_free_token(s):
    """Domain of the property: non-empty tokens without any whitespace character (no character with
    str.isspace(); str.split() cuts at exactly those characters, so "splits into itself" is the same test,
    evaluated in C instead of once per character)."""
    return bool(s) and s.split() == [s]


def field_blocks(text):
    """{lower-case field name: [data lines]} of ONE dumped paragraph.  The first
    element is what follows the colon on the field line (possibly empty), the
    others are the continuation lines verbatim."""
    out = {}
    cur = None
    for line in text.split('\n'):
        if not line:
            continue
        if line[0] in ' \t':
            if cur is not None:
                cur.append(line)
            continue
        key, _, rest = line.partition(':')
        cur = out.setdefault(key.strip().lower(), [])
        cur.append(rest)
    return out


_LINE = re.compile(r'^[ \t]*(\S+)( +)(\S+)')


def size_column(line):
    """(first token, padding between the single separating space and the size, size token)
    of one dumped record line, or None."""
    m = _LINE.match(line)
    if not m:
        return None
    return m.group(1), len(m.group(2)) - 1, m.group(3)


def expected_width(clsname, behavior, sizes):
    """Documented width of the size column for one field."""
    if clsname == 'Release' and behavior == 'apt-ftparchive':
        return 16
    return max(len(s) for s in sizes)
