"""Reference model for C08: which field values carry one of the three stated
defects, independent of the repository's validate_input.

Domain: strings over printable text, ':', '#', space, tab, CR and LF.  The line
boundaries of the control-file format inside that domain are LF, CR LF and a
bare CR; a terminator at the very end of the value does not open a further
(empty) line - 'a\\r' is the single line 'a' - while a value ending in LF is the
first stated defect on its own.
"""
import re

_BOUNDARY = re.compile(r'\r\n|\n|\r')

TRAILING_NEWLINE = 'trailing-newline'
EMPTY_LINE = 'empty-line'
NOT_INDENTED = 'continuation-not-indented'


def lines(v):
    """Lines of the value (terminators removed)."""
    parts = _BOUNDARY.split(v)
    if len(parts) > 1 and parts[-1] == '' and v[-1] in '\r\n':
        parts.pop()
    return parts


def has_boundary(v):
    return '\n' in v or '\r' in v


def defects(v):
    """Names of the stated defects present in v (empty list: no stated defect)."""
    out = []
    if v.endswith('\n'):
        out.append(TRAILING_NEWLINE)
    cont = lines(v)[1:]
    if any(l == '' for l in cont):
        out.append(EMPTY_LINE)
    if any(l != '' and l[0] not in ' \t' for l in cont):
        out.append(NOT_INDENTED)
    return out


def must_reject(v):
    return bool(defects(v))


def blank_continuation(v):
    """True if some line after the first consists of spaces/tabs only (or is
    empty): such a line ends the paragraph under the parser's default setting,
    so the default-setting re-read is outside the property for this value."""
    return any(l.strip(' \t') == '' for l in lines(v)[1:])
