"""Reference model for C09: an insertion-ordered, case-insensitive,
case-preserving mapping kept as a plain Python list of [key, value] pairs.
Independent of the repository (no import of debian.*).  Keys are ASCII or
belong to the class the C09 module admits at import time (simple_case_name:
one-to-one lower/upper pairs, ``str.casefold() == str.lower()``, no context
rules, NFC) or - since round 9 - to the widened class it checks there as well
(readings_agree: on ALL spellings the workload and the observation use,
``str.lower`` and ``str.casefold`` induce the same equivalence; spellings of
one name may differ in length, e.g. U+0130 and 'i' + U+0307), so ``str.lower``
is the whole of "case-insensitive" here.  Blank-like characters inside a
name are ordinary characters to the model.
"""


class CIListMap(object):
    def __init__(self, pairs=()):
        self.pairs = []
        for k, v in pairs:
            self.set(k, v)

    # -- lookups ---------------------------------------------------------
    def find(self, key):
        lk = key.lower()
        for i, kv in enumerate(self.pairs):
            if kv[0].lower() == lk:
                return i
        return -1

    def has(self, key):
        return self.find(key) >= 0

    def stored(self, key):
        """Spelling under which `key` is stored (that of its first insertion)."""
        return self.pairs[self.find(key)][0]

    def get(self, key):
        i = self.find(key)
        if i < 0:
            raise KeyError(key)
        return self.pairs[i][1]

    def keys(self):
        return [k for k, _ in self.pairs]

    def values(self):
        return [v for _, v in self.pairs]

    def items(self):
        return [(k, v) for k, v in self.pairs]

    def __len__(self):
        return len(self.pairs)

    # -- mutators --------------------------------------------------------
    def set(self, key, value):
        i = self.find(key)
        if i < 0:
            self.pairs.append([key, value])        # new key: at the end, spelled as given
        else:
            self.pairs[i][1] = value               # old key: position and spelling stay

    def delete(self, key):
        i = self.find(key)
        if i < 0:
            raise KeyError(key)
        del self.pairs[i]

    def move_first(self, key):
        i = self.find(key)
        if i < 0:
            raise KeyError(key)
        self.pairs.insert(0, self.pairs.pop(i))

    def move_last(self, key):
        i = self.find(key)
        if i < 0:
            raise KeyError(key)
        self.pairs.append(self.pairs.pop(i))

    def move_relative(self, key, ref, after):
        """Caller guarantees both present and different (case-insensitively)."""
        i, j = self.find(key), self.find(ref)
        if i < 0 or j < 0:
            raise KeyError(key if i < 0 else ref)
        if i == j:
            raise ValueError('self-relative')
        e = self.pairs.pop(i)
        j = self.find(ref)
        self.pairs.insert(j + 1 if after else j, e)

    def sort(self, keyfn):
        self.pairs.sort(key=lambda kv: keyfn(kv[0]))   # list.sort is stable, as sorted() is

    def copy(self):
        m = CIListMap()
        m.pairs = [[k, v] for k, v in self.pairs]
        return m
