"""C15 workload material, independent of the repository:

* a compact generator of well-formed deb-changelog(5) blocks (lines, no model -
  C15 needs only the text; the C04 module owns the modelled generator),
* the junk-line pool (about thirty line classes, several spellings each),
* a line classifier used ONLY for reach evidence (which (parser state, line
  class) pairs the LINE probe on parse_changelog actually saw) - it never takes
  part in a verdict,
* generators of well-formed ARGUMENT values for the editing calls.

Everything takes an explicit random.Random.
"""
import re

# --------------------------------------------------------------------------
# well-formed pieces

VERSIONS = ['1', '1.0-1', '2:1.0~rc1-1+b1', '0.9.8zh-1', '1.2.3+dfsg', '1:2:3', '1.0-1~bpo8+1', '0', '1.0-0ubuntu1',
            '2.10+really2.9-3', '1.0A-1']
DISTS = ['unstable', 'stable-security', 'UNRELEASED', 'bookworm-backports', 'sid', 'experimental', 'a.b', 'x+y',
         'stable']
URGENCIES = ['low', 'medium', 'high', 'emergency', 'critical', 'HIGH', 'Low', 'unknown']
# characters (and look-alikes of conversion / replacement fields) that have a special meaning in Python string
# formatting: %-formatting, str.format, string.Template, re.sub replacement templates.  A changelog is free text:
# every one of them may occur in a change line, an author name, a heading value or a stray line.
FMT_CORE = ['%', '%s', '%d', '%(x)s', '100%', '%%', '{', '}', '{0}', '\\']
FMT_EXTRA = ['{}', '{x', '%(x', '%r', '\\1', '\\g<x>', '${x}', '%c', '%*d', '{0.a}', '{:{w}}']
FMT_TOKENS = FMT_CORE + FMT_EXTRA

URG_COMMENTS = [' (HIGH for users of diversions)', ' (security)', ' (see NEWS)', ' HIGH for users of diversions',
                ' (100% sure)', ' ({0} %s)', ' \\ %d {']
EXTRAS = [('binary-only', 'yes'), ('closes', '123'), ('XS-Foo', 'bar baz'), ('medium-urgency', 'x=y'),
          ('Binary-Only', 'no'), ('x', 'a;b'), ('k9', 'v (w)'),
          ('pct', '100%'), ('fmt', '%s {0} \\'), ('x-brace', '{'), ('K2', '%(x)s}')]
NAMES = ['A B', 'Zo\u00eb Q. X', 'a', 'A (x) B', "O'Neil, jr.", 'A <weird> B', '\u6f22\u5b57',
         '100% Me', 'A %s B', '%(x)s', 'Curly {0} B', 'Open { Brace', 'Back\\slash', '%d %% }']
MAILS = ['a@b.c', 'x@y', 'first.last+tag@example.org', '', 'a%sb@c.d', '{0}@x\\y']
CHANGE_PREFIX = ['  * ', '    ', '  [ X ]', '   - ', '  ', '  + ']
CHANGE_ALPHA = 'ab c:#\u00e9\u6f22-*.;,=()<>'


def pkg(r):
    return r.choice('abz09') + ''.join(r.choice('ab09.+-') for _ in range(r.randint(0, 6)))


def ver(r):
    return r.choice(VERSIONS)


def dist(r):
    return ' '.join(r.choice(DISTS) for _ in range(r.choice([1, 1, 1, 2, 3])))


def urgency(r):
    return r.choice(URGENCIES)


def change(r):
    s = r.choice(CHANGE_PREFIX) + ''.join(r.choice(CHANGE_ALPHA) for _ in range(r.randint(1, 20)))
    k = r.random()
    if k < 0.08:
        s += r.choice(['  ', ' ', '\t'])          # trailing whitespace must survive verbatim
    if r.random() < 0.25:                          # formatting look-alike somewhere after the indentation
        i = r.randint(2, len(s))
        s = s[:i] + r.choice(FMT_TOKENS) + s[i:]
    return s


def date(r):
    return '%s%d %s %d %02d:%02d:%02d %s%04d' % (
        r.choice(['Mon, ', 'Tue, ', '', 'Thu,', 'Sun,  ']), r.randint(1, 31), r.choice(['Jan', 'Feb', 'Dec', 'Sep']),
        r.randint(1990, 2030), r.randint(0, 23), r.randint(0, 59), r.randint(0, 59), r.choice('+-'),
        r.choice([0, 100, 530, 1200, 1400, 945]))


def author(r):
    return '%s <%s>' % (r.choice(NAMES), r.choice(MAILS))


def header(r, rich=None):
    """A grammar-conforming heading; `rich` forces an urgency comment and extra key=value pairs."""
    h = '%s (%s) %s; urgency=%s' % (pkg(r), ver(r), dist(r), urgency(r))
    if rich is None:
        rich = r.random() < 0.3
    if rich or r.random() < 0.15:
        h += r.choice(URG_COMMENTS)
    if rich or r.random() < 0.15:
        for k, v in r.sample(EXTRAS, r.choice([1, 1, 2])):
            h += ', %s=%s' % (k, v)
    return h


def block(r, rich=None):
    lines = [header(r, rich), '']
    for _ in range(r.randint(1, 4)):
        lines.append(change(r))
        if r.random() < 0.2:
            lines.append(r.choice(['', '', '  ']))
    if lines[-1].strip() != '':
        lines.append('')
    lines.append(' -- %s  %s' % (author(r), date(r)))
    return lines


def wellformed(r, nblocks=None):
    lines = []
    for _ in range(r.choice([0, 0, 0, 0, 1, 2])):
        lines.append('')
    for _ in range(nblocks or r.choice([1, 1, 2, 2, 3])):
        lines += block(r)
        lines.append('')
    return lines


# --------------------------------------------------------------------------
# junk pool: class name -> spellings

_TR = 'Mon, 1 Jan 2001 00:00:00 +0000'
JUNK = {
    'bare-trailer': [' --', ' -- ', ' --   ', ' --\t'],
    'trailer-bad-date': [' -- A <b>  bad date', ' -- A B <a@b.c>  Mon, 1 Jan 2001 00:00:00',
                         ' -- A B <a@b.c>  Mon, 1 Jan 01 1:00:00 +0000', ' -- A B <a@b.c>  ' + _TR + ' x'],
    'trailer-one-space': [' -- A <b> ' + _TR, ' -- Zo\u00eb <z@x> 31 Dec 1999 23:59:59 -1200'],
    'trailer-three-space': [' -- A <b>   ' + _TR],
    'trailer-no-email': [' -- A B  ' + _TR, ' -- <>  ' + _TR, ' --  <a@b>  ' + _TR],
    'trailer-misindented': ['-- A <b>  ' + _TR, '  -- A <b>  ' + _TR, '\t-- A <b>  ' + _TR, ' - - A <b>  ' + _TR],
    'trailer-ok': [' -- A <b>  ' + _TR, ' -- A B <a@b>  1 Jan 2001 0:00:00 +0000  '],
    'emacs-mode': ['Local variables:', ';; Local variables:', 'local Variables: foo', ';;Local variables:',
                   ';;   LOCAL VARIABLES: mode: debian-changelog'],
    'emacs-near-miss': [' Local variables:', '; Local variables:', 'Local  variables:', 'End:', 'mode: debian-changelog'],
    'vim-mode': ['vim: set ts=2', 'VIM:et', 'vim:'],
    'vim-near-miss': [' vim: x', '# vim: set ts=2', 'vi: set ts=2', 'ex:ts=2 sw=2'],
    'cvs-keyword': ['$Id: x $', '$Revision: 1.2 $', '$Log: changelog,v $ trailing'],
    'cvs-near-miss': ['$Id$', '$ Id: x $', ' $Id: x $'],
    'hash-comment': ['# comment', '# '],
    'hash-near-miss': ['#nospace', '#', ' # indented'],
    'c-comment': ['/* c */', '/**/', '/* a */ b'],
    'c-comment-near-miss': ['/* unterminated', ' /* c */', '// c'],
    'old1-date-name': ['Mon Jan  1 12:00:00 2001  A B <a@b>', 'Mon Jan  1 12:00:00 CET 2001  A (b)'],
    'old2-date-name': ['Mon Jan 1, 2001  A B <a@b>', 'Mon Jan 1 2001  A (b)'],
    'old3-pkg-ver': ['pkg (1.0)', 'pkg (1.0);', 'pkg (1.0) trailing words'],
    'old4-debian': ['pkg-1.0 Debian 1', 'pkg 1.0 Debian 2'],
    'old5-changes-from': ['Changes from version 1 to 2:', 'changes from version 1.0 to 1.1: more'],
    'old6-changes-for': ['Changes for pkg-1.0:', 'Changes for a-b-1.0'],
    'old7-old-changelog': ['Old Changelog:', 'old changelog:  '],
    'old8-word': ['foo-1.0:', '1:foo', 'foo', 'Foo.bar+baz~1:  '],
    'tab-line': ['\tTabbed', '\t* change with one tab', '\t\t* change with two tabs', ' \t* space tab'],
    'one-space-line': [' one-space change', ' * item'],
    'heading-no-semicolon': ['pkg (1.0) unstable urgency=low', 'pkg (1.0) unstable'],
    'heading-bad-pairs': ['pkg (1.0) unstable; urgency', 'pkg (1.0) unstable; foo bar', 'pkg (1.0) unstable;',
                          'pkg (1.0) unstable; urgency=low, , x=1', 'pkg (1.0) unstable; =low', 'pkg (1.0) unstable; x='],
    'heading-repeated-key': ['pkg (1.0) unstable; urgency=low, urgency=high', 'pkg (1.0) unstable; urgency=low, a=1, A=2',
                             'pkg (1.0) unstable; Urgency=low, URGENCY=high (x)'],
    'heading-bad-urgency': ['pkg (1.0) unstable; urgency=\u00e9', 'pkg (1.0) unstable; urgency=low!', 'pkg (1.0) unstable; urgency=(low)'],
    'heading-rich': ['pkg (1.0) unstable; urgency=low (HIGH for users of diversions)',
                     'pkg (1.0) unstable; urgency=low (HIGH for users of diversions), binary-only=yes, foo=a;b',
                     'pkg (1.0) unstable; Urgency=HIGH, XS-Vcs=git', 'pkg (1.0) unstable; binary-only=yes',
                     'pkg (1.0) unstable; urgency=low (a, b)', 'pkg (1.0) unstable; urgency=  low   (x)  ,  k = v '],
    'heading-odd-spacing': ['pkg (1.0)  unstable  stable; urgency=low', 'pkg (1.0)\tunstable; urgency=low',
                            'pkg  (1.0) unstable; urgency=low', 'pkg (1.0)unstable; urgency=low',
                            'pkg (1.0) unstable ; urgency=low', ' pkg (1.0) unstable; urgency=low',
                            'pkg (1.0)\u00a0unstable; urgency=low'],
    'heading-odd-version': ['pkg (1;2) unstable; urgency=low', 'pkg (1_0) unstable; urgency=low', 'pkg (\u00e91) unstable; urgency=low',
                            'pkg (1:) unstable; urgency=low', 'pkg () unstable; urgency=low', 'pkg (1.0 ) unstable; urgency=low',
                            'pkg ((1.0)) unstable; urgency=low', '(1.0) unstable; urgency=low'],
    'heading-odd-package': ['\u00e9pkg (1.0) unstable; urgency=low', '_pkg (1.0) unstable; urgency=low', 'PKG.x+y (1.0) unstable; urgency=low',
                            '-pkg (1.0) unstable; urgency=low', 'p_kg (1.0) unstable; urgency=low'],
    'non-ascii': ['\u00e9', 'na\u00efve line of text', '\u00a0', '\u3000\u3000ideographic indent', '\u00a0\u00a0* nbsp indent',
                  '\u017ftrange (1.0) unstable; urgency=low'],
    'generic-text': ['garbage line', 'two words', 'a.'],
    'blank-ish': ['', '  ', '\t', ' '],
    'change-ok': ['  * plain change', '    continuation', '  [ Somebody ]'],
}
BASE_CLASSES = sorted(JUNK)

# Formatting look-alikes in every KIND of line the parser can report (in a warning or in ChangelogParseError):
# the rejected key=value pair, the rejected urgency value, a stray line in each of the four line states, a badly
# spaced trailer - and in the kinds it accepts silently (rich heading, change, comment, regular trailer), so that
# the silent path is exercised with the same characters.  One spelling per token; the templates rotate.  Class names
# keep the prefixes heading- / trailer- so that the heading / trailer families below pick them up.
FMT_TEMPLATES = {
    # reported as "Invalid key-value pair after ';': <pair>"
    'heading-fmt-bad-pairs': ['pkg (1.0) unstable; \x01', 'pkg (1.0) unstable; urgency=low, \x01',
                              'pkg (1.0) unstable; urgency=low, a \x01 b, k=v'],
    # reported as "Badly formatted urgency value: <value>"
    'heading-fmt-bad-urgency': ['pkg (1.0) unstable; urgency=\x01', 'pkg (1.0) unstable; urgency=low\x01',
                                'pkg (1.0) unstable; Urgency=\x01 (x), k=v'],
    # reported as "Repeated key-value: <key>" (the values carry the token)
    'heading-fmt-repeated-key': ['pkg (1.0) unstable; urgency=low, k=\x01, K=\x01', 'pkg (1.0) unstable; urgency=low \x01, urgency=high \x01'],
    # accepted silently: token in the urgency comment / in the value of an extra pair
    'heading-fmt-rich': ['pkg (1.0) unstable; urgency=low (\x01), k=\x01', 'pkg (1.0) unstable; urgency=low \x01',
                         'pkg (1.0) unstable; k=a \x01 b'],
    # token inside the parentheses: accepted as raw version, or (token with parentheses) a stray line
    'heading-fmt-odd-version': ['pkg (1.0\x01) unstable; urgency=low', 'pkg (\x01) unstable; urgency=low'],
    # no ';' / token in the package name: stray line (old-format look-alike after a block)
    'heading-fmt-no-semicolon': ['pkg (1.0) unstable urgency=\x01', 'pkg (1.0) \x01'],
    'heading-fmt-odd-package': ['\x01 (1.0) unstable; urgency=low', 'pkg\x01 (1.0) unstable; urgency=low'],
    # reported as "Badly formatted trailer line: <line>" and accepted (one space before the date)
    'trailer-fmt-one-space': [' -- \x01 Name <a@b> ' + _TR, ' -- A B <a\x01@b.c> ' + _TR, ' -- \x01 <\x01> 31 Dec 1999 23:59:59 -1200'],
    # accepted silently
    'trailer-fmt-ok': [' -- \x01 Name <a@b>  ' + _TR, ' -- A <\x01>  ' + _TR],
    # not a trailer: reported as an unexpected line
    'trailer-fmt-bad': [' -- \x01 <b>  bad date \x01', ' -- A \x01 <b>   ' + _TR, ' -- \x01', ' --\x01', '-- \x01 <b>  ' + _TR],
    # stray text: reported as "Unexpected line while looking for <state>: <line>" in all four line states
    'fmt-text': ['\x01', 'progress \x01 done', '\x01 \x01', '\x01:', 'x\x01'],
    'fmt-one-space-line': [' \x01', ' * \x01 item'],
    'fmt-tab-line': ['\t\x01', '\t* \x01 change with one tab'],
    'fmt-non-ascii': ['\u00e9 \x01 \u6f22', '\u00a0\u00a0* \x01 nbsp indent'],
    # accepted silently inside the changes
    'fmt-change': ['  * \x01', '    \x01 continuation', '  [ \x01 ]', '  * a \x01 b \x01'],
    # accepted silently in every state (comment / CVS keyword forms)
    'fmt-comment': ['# \x01', '/* \x01 */', '$Id: \x01 $'],
    # mode lines / old-format headings: stray before the first heading and inside the changes, slurped after a block
    'fmt-mode-line': ['vim: set ts=\x01', 'Local variables: \x01', ';; Local variables: \x01'],
    'fmt-old-format': ['Changes from version \x01 to \x01:', 'pkg-1.0 Debian \x01', 'Mon Jan 1, 2001  \x01 <a@b>', 'Old Changelog: \x01'],
}
# JUNK[class] (used by the enumerations) holds one spelling per token, the templates rotating; three classes (one
# reported heading value, one reported trailer, stray text) get the extra tokens too.  FMT_ALL[class] is the full
# template x token product, drawn from by the random generators.
_FMT_ALL_TOKENS = ('heading-fmt-bad-pairs', 'trailer-fmt-one-space', 'fmt-text')
FMT_ALL = {}
for _c, _tpls in sorted(FMT_TEMPLATES.items()):
    _toks = FMT_TOKENS if _c in _FMT_ALL_TOKENS else FMT_CORE
    JUNK[_c] = []
    for _n, _t in enumerate(_toks):
        _l = _tpls[_n % len(_tpls)].replace('\x01', _t)
        if _l not in JUNK[_c]:
            JUNK[_c].append(_l)
    FMT_ALL[_c] = list(JUNK[_c])
    for _tpl in _tpls:
        for _t in FMT_TOKENS:
            _l = _tpl.replace('\x01', _t)
            if _l not in FMT_ALL[_c]:
                FMT_ALL[_c].append(_l)
FMT_CLASSES = sorted(FMT_TEMPLATES)

JUNK_CLASSES = sorted(JUNK)
JUNK_CLASS_OF = {}
for _c in BASE_CLASSES + FMT_CLASSES:           # a spelling that exists in both keeps its old class
    for _l in JUNK[_c] + FMT_ALL.get(_c, []):
        JUNK_CLASS_OF.setdefault(_l, _c)


def spelling(r, cls):
    """A random spelling of a junk class (for the look-alike classes: any template with any token)."""
    return r.choice(FMT_ALL[cls] if cls in FMT_ALL else JUNK[cls])


def junk_line(r):
    """A junk spelling; one in four comes from the formatting look-alike classes."""
    if r.random() < 0.25:
        return spelling(r, r.choice(FMT_CLASSES))
    return spelling(r, r.choice(BASE_CLASSES))


def fmt_kinds(s):
    """Which families of formatting-special characters a string contains (evidence only)."""
    out = []
    if '%' in s:
        out.append('percent')
    if '{' in s or '}' in s:
        out.append('brace')
    if '\\' in s:
        out.append('backslash')
    return out


_MULTI = sorted([t for t in FMT_TOKENS if len(t) > 1], key=lambda t: (-len(t), t))


def fmt_tokens(s):
    """Which of the ten core look-alikes occur in a string (evidence only): multi-character tokens first, then
    whatever single special characters are left over."""
    out = []
    back = '\\' in s
    for t in _MULTI:
        if t in s:
            if t in FMT_CORE:
                out.append(t)
            s = s.replace(t, ' ')
    for t in ('%', '{', '}'):
        if t in s:
            out.append(t)
    if back:
        out.append('backslash')
    return out


# --------------------------------------------------------------------------
# line classifier for the reach evidence (NOT an oracle)

_HEAD = re.compile(r'^\w[-+0-9a-z.]* \([^() \t]+\)(\s+[-+0-9a-z.]+)+;', re.I)
_TRAILER = re.compile(r'^ -- .* <.*>  ?(\w+,\s*)?\d{1,2}\s+\w+\s+\d{4}\s+\d{1,2}:\d\d:\d\d\s+[-+]\d{4}\s*$')


def line_class(line):
    c = JUNK_CLASS_OF.get(line)
    if c is not None:
        return c
    if line == '':
        return 'blank-ish'
    if not line.strip():
        return 'blank-ish'
    if _HEAD.match(line):
        if '(' in line.split(';', 1)[1] or line.split(';', 1)[1].count('=') > 1:
            return 'heading-rich'
        return 'heading-ok'
    if _TRAILER.match(line):
        return 'trailer-ok'
    if line.startswith(' --'):
        return 'trailer-other'
    if line[0].isspace() and len(line) > 1 and line[1].isspace():
        return 'change-ok'
    if line[0].isspace():
        return 'one-space-line'
    return 'other-text'


# --------------------------------------------------------------------------
# mutation of a list of lines

def mutate(r, lines, nops):
    """0..nops line insertions / deletions / duplications; returns (lines, ops applied).
    Insert positions are biased towards the two ends (before the first heading,
    after the last trailer) because those are distinct parser states."""
    lines = list(lines)
    applied = []
    for _ in range(nops):
        op = r.choice(['ins', 'ins', 'ins', 'del', 'dup', 'rep'])
        if not lines and op != 'ins':
            op = 'ins'
        if op == 'rep':
            # deletion + insertion at the same place: a heading / trailer is replaced by an
            # irregular spelling of the same kind, so the irregular line is the ONLY defect nearby
            i = r.randrange(len(lines))
            c = line_class(lines[i])
            if c.startswith('heading'):
                pool = [k for k in JUNK_CLASSES if k.startswith('heading') or k.startswith('old3')]
            elif c.startswith('trailer'):
                pool = [k for k in JUNK_CLASSES if k.startswith('trailer') or k == 'bare-trailer']
            else:
                pool = JUNK_CLASSES
            j = spelling(r, r.choice(pool))
            applied.append('rep:%s>%s' % (c, JUNK_CLASS_OF[j]))
            lines[i] = j
            continue
        if op == 'ins':
            k = r.random()
            if k < 0.18:
                i = 0
            elif k < 0.25:
                i = min(len(lines), r.randint(0, 2))
            elif k < 0.40:
                i = len(lines)
            elif k < 0.47:
                i = max(0, len(lines) - r.randint(0, 2))
            else:
                i = r.randint(0, len(lines))
            j = junk_line(r)
            lines.insert(i, j)
            applied.append('ins:' + JUNK_CLASS_OF[j])
        elif op == 'del':
            i = r.randrange(len(lines))
            applied.append('del:' + line_class(lines[i]))
            lines.pop(i)
        else:
            i = r.randrange(len(lines))
            k = r.randint(i, len(lines))      # the copy may land anywhere after the original
            if r.random() < 0.5:
                k = i
            applied.append('dup:' + line_class(lines[i]))
            lines.insert(k, lines[i])
    return lines, applied


# --------------------------------------------------------------------------
# well-formed ARGUMENT values for the editing calls

def arg_changes(r):
    k = r.random()
    if k < 0.55:
        return [''] + [change(r).rstrip() for _ in range(r.randint(1, 3))] + ['']
    if k < 0.75:
        return [change(r).rstrip() for _ in range(r.randint(1, 2))]
    if k < 0.85:
        return ['', change(r).rstrip(), '', change(r).rstrip(), '', '']
    return ['']


def arg_other_pairs(r):
    d = {}
    for k, v in r.sample(EXTRAS, r.choice([1, 1, 2])):
        if k.lower() not in [x.lower() for x in d]:
            d[k] = v
    return d


def arg_urgency_comment(r):
    return r.choice(URG_COMMENTS)


# --------------------------------------------------------------------------
# multi-block texts with ONE (sometimes two) irregular-but-accepted construct in a NON-last block
#
# A "block" here is a list of lines: heading .. the blank line(s) after the trailer.  The irregularity is applied
# to one block of an otherwise regular text, so that whatever the parser does with it (accept with a warning,
# accept silently, fold it into the changes) the neighbours are regular and DIFFERENT from it.

TRAILER_FAMILY = [k for k in JUNK_CLASSES if k.startswith('trailer') or k == 'bare-trailer']
HEADING_FAMILY = [k for k in JUNK_CLASSES if k.startswith('heading') or k.startswith('old3')]
BETWEEN_FAMILY = ['hash-comment', 'hash-near-miss', 'c-comment', 'c-comment-near-miss', 'cvs-keyword', 'cvs-near-miss',
                  'generic-text', 'non-ascii', 'tab-line', 'one-space-line', 'emacs-near-miss', 'vim-near-miss',
                  'blank-ish', 'change-ok', 'trailer-ok', 'bare-trailer', 'trailer-one-space',
                  'fmt-text', 'fmt-one-space-line', 'fmt-tab-line', 'fmt-non-ascii', 'fmt-change', 'fmt-comment',
                  'trailer-fmt-ok', 'trailer-fmt-one-space', 'trailer-fmt-bad']
SLURP_FAMILY = [k for k in JUNK_CLASSES if k.startswith('old') or k in ('emacs-mode', 'vim-mode', 'fmt-mode-line',
                                                                         'fmt-old-format')]
MULTI_FAMILIES = ['own-trailer-one-space', 'own-trailer-one-space', 'own-trailer-one-space', 'trailer-junk', 'trailer-junk',
                  'heading-junk', 'heading-junk', 'own-heading-variant', 'own-heading-variant', 'between', 'between',
                  'in-changes', 'layout', 'slurp']


def trailer_index(b):
    for i in range(len(b) - 1, -1, -1):
        if b[i].startswith(' -- '):
            return i
    return None


def one_space_trailer(line):
    """' -- A <m>  date' -> ' -- A <m> date' (None when the line has no '>  ')."""
    i = line.rfind('>  ')
    if i < 0:
        return None
    return line[:i + 1] + ' ' + line[i + 3:]


def heading_variant(r, h):
    """An irregular spelling of the regular heading `h` (same package/version/distributions)."""
    head, sep, pairs = h.partition('; ')
    k = r.randrange(12)
    if k == 9:
        return head + '; ' + pairs + ', ' + r.choice(FMT_TOKENS)            # invalid pair that is a look-alike
    if k == 10:
        return head + '; ' + pairs.replace('urgency=', 'urgency=' + r.choice(FMT_TOKENS), 1)   # bad urgency value
    if k == 11:
        return head + '; ' + pairs + ', fmtk=a ' + r.choice(FMT_TOKENS)     # accepted extra pair
    if k == 0:
        return h + ', urgency=high'                       # repeated key (warning, last one wins)
    if k == 1:
        return head + ';'                                  # no pairs at all (warning, urgency stays "unknown")
    if k == 2:
        return head + '; ' + pairs.replace('urgency=', 'Urgency=', 1)   # accepted silently, normalised on output
    if k == 3:
        return head + ';   ' + pairs.replace(', ', '  ,   ').replace('=', '= ', 1)
    if k == 4:
        return head.replace(') ', ')\t', 1) + '; ' + pairs  # tab between version and distributions
    if k == 5:
        return head + '; ' + pairs + ', novalue'           # invalid pair (warning, skipped)
    if k == 6:
        return head + '; ' + pairs + ','                   # trailing comma -> empty pair
    if k == 7:
        return head + '; ' + pairs.replace('urgency=', 'urgency=!', 1)  # bad urgency value
    return head + '; closes=1, ' + pairs                   # urgency not first


def irregularise(r, b, family):
    """Returns (lines of the block with one irregular construct, label)."""
    b = list(b)
    ti = trailer_index(b)
    if family == 'own-trailer-one-space' and ti is not None:
        t = one_space_trailer(b[ti])
        if t is not None:
            if r.random() < 0.15:
                t += r.choice([' ', '  '])
            b[ti] = t
            return b, 'own-trailer-one-space'
    if family in ('own-trailer-one-space', 'trailer-junk') and ti is not None:
        cls = r.choice(TRAILER_FAMILY)
        b[ti] = spelling(r, cls)
        return b, 'trailer-junk:' + cls
    if family == 'heading-junk':
        cls = r.choice(HEADING_FAMILY)
        b[0] = spelling(r, cls)
        return b, 'heading-junk:' + cls
    if family == 'own-heading-variant' and '; ' in b[0]:
        b[0] = heading_variant(r, b[0])
        return b, 'own-heading-variant'
    if family == 'between':
        at = (ti + 1) if ti is not None else len(b)
        for _ in range(r.choice([1, 1, 2])):
            cls = r.choice(BETWEEN_FAMILY)
            b.insert(r.randint(at, len(b)), spelling(r, cls))
        return b, 'between'
    if family == 'slurp':
        at = (ti + 1) if ti is not None else len(b)
        cls = r.choice(SLURP_FAMILY)
        b.insert(r.randint(at, len(b)), spelling(r, cls))
        return b, 'slurp'
    if family == 'layout' and ti is not None:
        k = r.randrange(6)
        if k == 0:
            while len(b) > ti + 1:                          # the next heading follows the trailer directly
                b.pop()
        elif k == 1 and len(b) > 1 and b[1].strip() == '':
            b.pop(1)                                        # no blank line after the heading
        elif k == 2 and b[ti - 1].strip() == '':
            b.pop(ti - 1)                                   # no blank line before the trailer
        elif k == 3:
            b[ti + 1:] = [r.choice(['', ' ', '  ', '\t']) for _ in range(r.randint(2, 3))]
        elif k == 4:
            b.insert(1, r.choice(['  ', '\t', ' ']))        # whitespace-only line after the heading
        else:
            b.insert(ti, r.choice(['  ', '', '   ']))       # additional blank-ish line before the trailer
        return b, 'layout'
    # in-changes (also the fallback when the block has no trailer)
    hi = ti if ti is not None else len(b)
    cls = r.choice(JUNK_CLASSES)
    b.insert(r.randint(1, max(1, hi)), spelling(r, cls))
    return b, 'in-changes'


def regular_blocks(r, n):
    """n regular blocks with pairwise different headings/authors where the pools allow it; every other block is
    plain (no urgency comment, no extra pairs) so that state leaking from a neighbour would show."""
    out = []
    for i in range(n):
        out.append(block(r, rich=(r.random() < 0.5) if i % 2 else False) + [''])
    return out


def multi_irregular(r, blocks=None):
    """-> (lines, info).  `blocks`: optional list of blocks (lists of lines) to use instead of generated ones."""
    if blocks is None:
        blocks = regular_blocks(r, r.choice([2, 2, 3, 3, 4]))
    blocks = [list(b) for b in blocks]
    n = len(blocks)
    k = r.randrange(n - 1) if n > 1 else 0
    fam = r.choice(MULTI_FAMILIES)
    blocks[k], label = irregularise(r, blocks[k], fam)
    info = {'n': n, 'k': k, 'family': label.split(':')[0], 'label': label}
    if n > 1 and r.random() < 0.2:                          # a second irregular block, anywhere but k
        k2 = r.choice([i for i in range(n) if i != k])
        blocks[k2], label2 = irregularise(r, blocks[k2], r.choice(MULTI_FAMILIES))
        info['second'] = {'k': k2, 'label': label2}
    lines = []
    if r.random() < 0.1:
        lines.append(r.choice(['', '# leading comment', '  ']))
    for b in blocks:
        lines += b
    return lines, info


# --------------------------------------------------------------------------
# irregular internal blanks ("ws" class): headings and trailers of the deb-changelog(5) shape whose blanks BETWEEN
# the items are runs of 2, 3, 4, 7 spaces, tabs or mixtures.  A line is assembled from its items and a dict of
# gaps {slot: run}; slots that are not mentioned get the regular spelling.  Which of these lines the library accepts
# without a warning is NOT encoded here: the generator only knows where the format has a blank (or could have one),
# the live parser decides, and the module counts the outcome.
WS_RUNS = ['  ', '   ', '    ', '       ', '\t', '\t\t', ' \t', '\t ', ' \t ', '  \t  ', '   \t']
WS_RUN_CLASS = {'  ': '2-spaces', '   ': '3-spaces', '    ': '4-spaces', '       ': '7-spaces', '\t': 'tab',
                '\t\t': 'tabs'}
# slot -> regular spelling
WS_HEADING_SLOTS = {'pkg-paren': ' ', 'paren-dist': ' ', 'dist-dist': ' ', 'before-semi': '', 'after-semi': ' ',
                    'urg-before-eq': '', 'urg-after-eq': '', 'urg-comment': ' ', 'in-comment': ' ',
                    'before-comma': '', 'after-comma': ' ', 'pair-before-eq': '', 'pair-after-eq': '',
                    'in-value': ' ', 'h-trailing': ''}
WS_TRAILER_SLOTS = {'after-dashes': ' ', 'in-name': ' ', 'name-mail': ' ', 'in-mail': '', 'mail-date': '  ',
                    'dow-day': ' ', 'in-date': ' ', 't-trailing': ''}
WS_SLOTS = sorted(WS_HEADING_SLOTS) + sorted(WS_TRAILER_SLOTS)
# slots where deb-changelog(5) has free-form text or a list separated by blanks (drawn three times as often by the
# random generator as the slots where the format prescribes the exact spelling)
WS_CORE_SLOTS = ['paren-dist', 'dist-dist', 'after-semi', 'urg-after-eq', 'urg-comment', 'in-comment', 'before-comma',
                 'after-comma', 'pair-after-eq', 'in-value', 'h-trailing', 'in-name', 'name-mail', 'in-mail', 'dow-day',
                 'in-date', 't-trailing']
# items of the two fixed blocks the enumerations respell: plain (two distributions, nothing after the urgency) and
# rich (three distributions, urgency comment, two extra pairs, three-word name, date without day of week)
WS_BASES = [
    {'h': {'pkg': 'wsp', 'ver': '1.0-1', 'dists': ['unstable', 'testing'], 'urg': 'low', 'comment': [], 'pairs': []},
     't': {'name': ['A', 'B'], 'mail': ['a@b.c'], 'date': ['Mon,', '1', 'Jan', '2001', '00:00:00', '+0000']}},
    {'h': {'pkg': 'ws-rich', 'ver': '1:2.5~rc1-3', 'dists': ['stable', 'testing', 'x+y'], 'urg': 'HIGH',
           'comment': ['(HIGH', 'for', 'users)'], 'pairs': [['binary-only', ['yes']], ['XS-Foo', ['bar', 'baz', 'qux']]]},
     't': {'name': ['Zoë', 'Q.', 'X'], 'mail': ['z@x', 'y'], 'date': ['31', 'Dec', '1999', '23:59:59', '-1200']}},
]
WS_CHANGES = ['', '  * change one', '    continuation', '']


# other characters str.isspace() / the regex class \s know (no-break space, em space, ideographic space, form feed):
# drawn by the random generator only, one run in twelve
WS_UNI_RUNS = ['\u00a0', ' \u00a0 ', '\u2003', ' \u2003', '\u3000\u3000', '\x0c', '\u00a0\u00a0\u00a0']


def ws_run_class(run):
    if set(run) - set(' \t'):
        return 'unicode-blank'
    return WS_RUN_CLASS.get(run) or ('spaces' if set(run) == {' '} else 'tabs' if set(run) == {'\t'} else 'mixed')


def _gap(gaps, slot, n=0):
    v = gaps.get(slot)
    if v is None:
        return (WS_HEADING_SLOTS.get(slot) if slot in WS_HEADING_SLOTS else WS_TRAILER_SLOTS[slot])
    if isinstance(v, list):
        return v[n % len(v)]
    return v


def ws_heading(h, gaps):
    """Heading line from its items h = {pkg, ver, dists, urg, comment (words), pairs [[key, value words]]}."""
    s = h['pkg'] + _gap(gaps, 'pkg-paren') + '(' + h['ver'] + ')' + _gap(gaps, 'paren-dist')
    for n, d in enumerate(h['dists']):
        s += (_gap(gaps, 'dist-dist', n - 1) if n else '') + d
    s += _gap(gaps, 'before-semi') + ';' + _gap(gaps, 'after-semi')
    s += 'urgency' + _gap(gaps, 'urg-before-eq') + '=' + _gap(gaps, 'urg-after-eq') + h['urg']
    for n, w in enumerate(h.get('comment') or []):
        s += (_gap(gaps, 'in-comment', n - 1) if n else _gap(gaps, 'urg-comment')) + w
    for m, (k, words) in enumerate(h.get('pairs') or []):
        s += _gap(gaps, 'before-comma', m) + ',' + _gap(gaps, 'after-comma', m)
        s += k + _gap(gaps, 'pair-before-eq', m) + '=' + _gap(gaps, 'pair-after-eq', m)
        for n, w in enumerate(words):
            s += (_gap(gaps, 'in-value', n - 1) if n else '') + w
    return s + _gap(gaps, 'h-trailing')


def ws_trailer(t, gaps):
    """Trailer line from its items t = {name (words), mail (words), date (words; the first may be 'Mon,')}."""
    s = ' --' + _gap(gaps, 'after-dashes')
    for n, w in enumerate(t['name']):
        s += (_gap(gaps, 'in-name', n - 1) if n else '') + w
    s += _gap(gaps, 'name-mail') + '<'
    for n, w in enumerate(t['mail']):
        s += (_gap(gaps, 'in-mail', n - 1) if n else '') + w
    s += '>' + _gap(gaps, 'mail-date')
    date = list(t['date'])
    if date and date[0].endswith(','):
        s += date.pop(0) + _gap(gaps, 'dow-day')
    for n, w in enumerate(date):
        s += (_gap(gaps, 'in-date', n - 1) if n else '') + w
    return s + _gap(gaps, 't-trailing')


def ws_block(base, gaps, changes=None):
    """Lines of one block (heading .. blank line after the trailer)."""
    return [ws_heading(base['h'], gaps)] + list(changes or WS_CHANGES) + [ws_trailer(base['t'], gaps), '']


def ws_slot_runs(slot, run):
    """Spellings of one slot built from one run: the run itself, plus - where the format prescribes a literal blank
    next to the gap - the run next to that blank."""
    out = [run]
    if slot in ('after-dashes', 'pkg-paren'):
        out.append(' ' + run)
    if slot == 'name-mail':
        out.append(run + ' ')
    if slot == 'in-mail':                 # the regular spelling has no blank here: a one-blank variant as well
        out.append(' ')
    return out


def ws_enumerated():
    """-> list of (slot list, run, base index, gaps): every slot x every run on both fixed blocks (slots without an
    effect on a block are skipped), plus every run in all core slots at once and in all heading / all trailer slots."""
    out, seen = [], set()
    for bi, base in enumerate(WS_BASES):
        regular = ws_block(base, {})
        for slot in WS_SLOTS:
            for run in WS_RUNS:
                for sp in ws_slot_runs(slot, run):
                    gaps = {slot: sp}
                    ls = ws_block(base, gaps)
                    key = (ls[0], ls[-2])
                    if ls == regular or key in seen:
                        continue
                    seen.add(key)
                    out.append(([slot], sp, bi, gaps))
        for run in WS_RUNS:
            for slots in (WS_CORE_SLOTS, [s for s in WS_CORE_SLOTS if s in WS_HEADING_SLOTS],
                          [s for s in WS_CORE_SLOTS if s in WS_TRAILER_SLOTS]):
                gaps = dict((s, run + ' ' if s == 'name-mail' else run) for s in slots)
                out.append((list(slots), run, bi, gaps))
    return out


WS_WORDS = ['a', 'bc', 'x=y', '(w)', '100%', 'foó', '{0}', 'see', 'NEWS', 'v2;', 'z.']
WS_NAME_WORDS = ['A', 'B', 'Zoë', 'Q.', "O'Neil", 'jr.', '(x)', '漢字', 'van', 'der', '%s']
WS_KEYS = ['binary-only', 'closes', 'XS-Foo', 'Binary-Only', 'k9', 'medium-urgency', 'x']


def ws_random_run(r):
    k = r.random()
    if k < 0.5:
        return r.choice(WS_RUNS)
    if k < 0.74:
        return ' ' * r.choice([2, 3, 3, 4, 5, 6, 7, 8, 9, 16])
    if k < 0.92:
        return ''.join(r.choice(' \t') for _ in range(r.randint(2, 7)))
    return r.choice(WS_UNI_RUNS)


def ws_random_base(r):
    comment = []
    if r.random() < 0.6:
        comment = r.sample(WS_WORDS, r.randint(1, 4))
        comment[0] = '(' + comment[0]
        comment[-1] += ')'
    pairs = []
    for k in r.sample(WS_KEYS, r.choice([0, 1, 1, 2, 3])):
        if k.lower() not in [p[0].lower() for p in pairs]:
            pairs.append([k, r.sample(WS_WORDS, r.randint(1, 4))])
    h = {'pkg': pkg(r), 'ver': ver(r), 'dists': [r.choice(DISTS) for _ in range(r.choice([1, 2, 2, 3, 3, 4]))],
         'urg': urgency(r), 'comment': comment, 'pairs': pairs}
    d = date(r).split()
    t = {'name': r.sample(WS_NAME_WORDS, r.randint(1, 4)),
         'mail': r.choice([['a@b.c'], ['x@y'], ['first.last+tag@example.org'], ['a@b', 'c'], ['one', 'two', 'three']]),
         'date': d}
    return {'h': h, 't': t}


def ws_random_gaps(r):
    """1..5 slots (core slots three times as likely), each with its own run; a multi-gap slot (between
    distributions, inside the date ...) may get a different run per gap."""
    pool = WS_SLOTS + WS_CORE_SLOTS + WS_CORE_SLOTS
    gaps = {}
    for _ in range(r.choice([1, 1, 2, 2, 3, 4, 5])):
        slot = r.choice(pool)
        run = r.choice(ws_slot_runs(slot, ws_random_run(r))[:2])
        if slot in ('dist-dist', 'in-comment', 'in-value', 'in-name', 'in-date', 'before-comma', 'after-comma') \
                and r.random() < 0.4:
            run = [run, r.choice([_gap({}, slot), ws_random_run(r)]), ws_random_run(r)]
        gaps[slot] = run
    return gaps


def ws_random_changes(r):
    lines = ['']
    for _ in range(r.randint(1, 3)):
        lines.append(change(r))
    lines.append('')
    return lines


def ws_text(r):
    """-> (lines, info): 1-3 blocks, at least one of them with irregular internal blanks in its heading / trailer,
    the others regular; info = {'slots': [...], 'runs': [run classes], 'k': index of the first irregular block,
    'n': number of blocks}."""
    n = r.choice([1, 1, 2, 2, 3])
    which = set([r.randrange(n)])
    for i in range(n):
        if r.random() < 0.3:
            which.add(i)
    lines, slots, runs = [], [], []
    if r.random() < 0.15:
        lines.append('')
    for i in range(n):
        if i in which:
            gaps = ws_random_gaps(r)
            lines += ws_block(ws_random_base(r), gaps, ws_random_changes(r))
            for s in sorted(gaps):
                slots.append(s)
                for run in (gaps[s] if isinstance(gaps[s], list) else [gaps[s]]):
                    runs.append(ws_run_class(run))
        else:
            lines += block(r, rich=r.random() < 0.4) + ['']
    return lines, {'slots': sorted(set(slots)), 'runs': sorted(set(runs)), 'k': min(which), 'n': n}
