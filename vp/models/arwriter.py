"""Tiny, library-independent writer for the common (System V / GNU short-name)
``ar`` archive format - the harness's own packing model for C06 / C07.

Format written (see ar(5)):

    "!<arch>\\n"                                   8-byte global header
    per member, a 60-byte header
        bytes  0..15  name        (left-justified, space padded)
        bytes 16..27  mtime       decimal
        bytes 28..33  uid         decimal
        bytes 34..39  gid         decimal
        bytes 40..47  mode        octal
        bytes 48..57  size        decimal
        bytes 58..59  "`\\n"
    followed by the member data; a member of odd size is followed by ONE padding
    byte ("\\n") so that every header starts on an even offset.

Two spellings of the name field are supported:

    style='bare'   "name" space-padded to 16 bytes - what dpkg-deb writes
                   (names up to 16 characters fit, e.g. "control.tar.lzma");
    style='gnu'    "name/" space-padded - what GNU ar writes for short names
                   (names up to 15 characters fit).

Long-name tables ("//" members, "/123" references, BSD "#1/len") are
deliberately NOT produced: the properties under test speak about short names.

Nothing here imports the library under observation.
"""
from __future__ import annotations

GLOBAL_HEADER = b'!<arch>\n'
HEADER_LEN = 60
MAGIC = b'`\n'
STYLES = ('bare', 'gnu')

DEFAULT_MTIME = 0
DEFAULT_UID = 0
DEFAULT_GID = 0
DEFAULT_MODE = 0o100644

# largest values that fit the fixed-width fields
MAX_MTIME = 10 ** 12 - 1
MAX_ID = 10 ** 6 - 1
MAX_MODE = 0o77777777
MAX_SIZE = 10 ** 10 - 1


def _name_bytes(name):
    if isinstance(name, bytes):
        return name
    return name.encode('utf-8', 'surrogateescape')


def max_name_len(style):
    """Longest member name (in bytes) representable in the given style."""
    if style == 'bare':
        return 16
    if style == 'gnu':
        return 15
    raise ValueError('unknown ar name style %r' % (style,))


def fits(name, style):
    """True if `name` can be written as a short name in `style`."""
    raw = _name_bytes(name)
    return (0 < len(raw) <= max_name_len(style) and b'/' not in raw and raw == raw.strip()
            and b'\n' not in raw)


def _num(value, width, what, base=10):
    if isinstance(value, (bytes, str)):          # raw field text supplied by the caller
        raw = value if isinstance(value, bytes) else value.encode('ascii')
    else:
        if value < 0:
            raise ValueError('%s must be >= 0, got %r' % (what, value))
        raw = (b'%o' if base == 8 else b'%d') % value
    if len(raw) > width:
        raise ValueError('%s %r does not fit %d columns' % (what, value, width))
    return raw.ljust(width, b' ')


def member_header(name, size, mtime=DEFAULT_MTIME, uid=DEFAULT_UID, gid=DEFAULT_GID, mode=DEFAULT_MODE,
                  style='bare', strict=True):
    """The 60-byte header of one member.

    `mode` is an int (written in octal) or raw bytes/str copied verbatim;
    the same goes for mtime/uid/gid (decimal).  With strict=True (default) a
    name that cannot be represented as a short name in `style` raises
    ValueError instead of producing an archive whose member table is not the
    one the caller believes it wrote.
    """
    raw = _name_bytes(name)
    if style not in STYLES:
        raise ValueError('unknown ar name style %r' % (style,))
    if strict and not fits(raw, style):
        raise ValueError('member name %r not representable as a %s short name' % (name, style))
    field = raw + (b'/' if style == 'gnu' else b'')
    if len(field) > 16:
        raise ValueError('member name %r does not fit 16 columns in style %s' % (name, style))
    hdr = (field.ljust(16, b' ') + _num(mtime, 12, 'mtime') + _num(uid, 6, 'uid') + _num(gid, 6, 'gid')
           + _num(mode, 8, 'mode', base=8) + _num(size, 10, 'size') + MAGIC)
    assert len(hdr) == HEADER_LEN, len(hdr)
    return hdr


def _normalise(member):
    member = tuple(member)
    if not 2 <= len(member) <= 6:
        raise ValueError('member must be (name, data[, mtime[, uid[, gid[, mode]]]]), got %d items' % len(member))
    defaults = (None, None, DEFAULT_MTIME, DEFAULT_UID, DEFAULT_GID, DEFAULT_MODE)
    name, data, mtime, uid, gid, mode = member + defaults[len(member):]
    if not isinstance(data, (bytes, bytearray)):
        raise TypeError('member data must be bytes')
    return name, bytes(data), mtime, uid, gid, mode


def _styles(style, n):
    if isinstance(style, str):
        return [style] * n
    styles = list(style)
    if len(styles) != n:
        raise ValueError('need one style per member (%d), got %d' % (n, len(styles)))
    return styles


def build_ar(members, style='bare', strict=True, pad=b'\n'):
    """Serialise `members` - a list of (name, data, mtime, uid, gid, mode)
    tuples (trailing items optional) - into the bytes of an ar archive.

    `style` is 'bare' or 'gnu' for the whole archive, or a list with one entry
    per member.  Members are written in the given order; duplicate names are
    written as given.  Odd-size members are followed by the one-byte `pad`.
    """
    members = [_normalise(m) for m in members]
    styles = _styles(style, len(members))
    if len(pad) != 1:
        raise ValueError('padding is exactly one byte')
    out = [GLOBAL_HEADER]
    for (name, data, mtime, uid, gid, mode), st in zip(members, styles):
        out.append(member_header(name, len(data), mtime, uid, gid, mode, style=st, strict=strict))
        out.append(data)
        if len(data) % 2:
            out.append(pad)
    return b''.join(out)


def member_table(members, style='bare'):
    """Where build_ar() puts things: one dict per member with 'name',
    'header_offset', 'offset' (first data byte), 'size', 'end' (offset+size),
    'padded' (bool), and the header field values - the known-by-construction
    member table an oracle compares a reader against."""
    members = [_normalise(m) for m in members]
    styles = _styles(style, len(members))
    table = []
    pos = len(GLOBAL_HEADER)
    for (name, data, mtime, uid, gid, mode), st in zip(members, styles):
        size = len(data)
        table.append({'name': name, 'header_offset': pos, 'offset': pos + HEADER_LEN, 'size': size,
                      'end': pos + HEADER_LEN + size, 'padded': bool(size % 2), 'style': st,
                      'mtime': mtime, 'uid': uid, 'gid': gid, 'mode': mode})
        pos += HEADER_LEN + size + (size % 2)
    return table
