"""Independent reference for Debian version comparison: a line-by-line port of
dpkg's lib/dpkg/version.c (order(), verrevcmp(), dpkg_version_compare()).
Shares no code with the repository."""


def _order(c):
    if c.isdigit():
        return 0
    if c.isalpha():
        return ord(c)
    if c == '~':
        return -1
    if c:
        return ord(c) + 256
    return 0


def verrevcmp(a, b):
    i = j = 0
    la, lb = len(a), len(b)
    while i < la or j < lb:
        first_diff = 0
        while (i < la and not a[i].isdigit()) or (j < lb and not b[j].isdigit()):
            ac = _order(a[i]) if i < la else 0
            bc = _order(b[j]) if j < lb else 0
            if ac != bc:
                return ac - bc
            i += 1
            j += 1
        while i < la and a[i] == '0':
            i += 1
        while j < lb and b[j] == '0':
            j += 1
        while i < la and a[i].isdigit() and j < lb and b[j].isdigit():
            if not first_diff:
                first_diff = ord(a[i]) - ord(b[j])
            i += 1
            j += 1
        if i < la and a[i].isdigit():
            return 1
        if j < lb and b[j].isdigit():
            return -1
        if first_diff:
            return first_diff
    return 0


def split(v):
    """Policy 5.6.12 decomposition: epoch before the first colon, revision
    after the last hyphen."""
    epoch = None
    if ':' in v:
        epoch, v = v.split(':', 1)
    rev = None
    if '-' in v:
        v, rev = v.rsplit('-', 1)
    return epoch, v, rev


def compare(a, b):
    ea, ua, ra = split(a)
    eb, ub, rb = split(b)
    ea, eb = int(ea or '0'), int(eb or '0')
    if ea != eb:
        return -1 if ea < eb else 1
    c = verrevcmp(ua, ub)
    if c:
        return -1 if c < 0 else 1
    c = verrevcmp(ra or '', rb or '')
    return 0 if c == 0 else (-1 if c < 0 else 1)


ALNUM = 'abcdefghijklmnopqrstuvwxyzABCDEFGHIJKLMNOPQRSTUVWXYZ0123456789'
UPSTREAM_CHARS = set(ALNUM + '.+~-:')
REVISION_CHARS = set(ALNUM + '.+~')
ASCII_DIGITS = set('0123456789')


def classify(s):
    """Three-way syntactic classifier used by C14: 'accept', 'reject' or
    'unspecified' (see DESIGN.md C14)."""
    if s == '':
        return 'reject'
    for ch in s:
        if ch not in UPSTREAM_CHARS:
            return 'reject'
    epoch = None
    rest = s
    if ':' in s:
        epoch, rest = s.split(':', 1)
        if epoch == '' or any(c not in ASCII_DIGITS for c in epoch):
            return 'reject'
    if rest == '':
        return 'reject'
    if '-' in rest:
        up, rev = rest.rsplit('-', 1)
        if up == '' or rev == '':
            return 'unspecified'
        if any(c not in REVISION_CHARS for c in rev):
            # the text after the last hyphen is not a revision (it contains ':'):
            # dpkg rejects ("invalid character in revision number")
            return 'reject'
    return 'accept'
