"""Reference model for C20: a tag collection as a plain relation.

Independent of the repository: a ``set`` of (package, tag) pairs plus two
*upper bounds* on the key sets.  The property statement speaks about pairs
("a package is listed under a tag exactly when the tag is listed for the
package"); whether a package that has no tag at all (or, after ``reverse``, a
tag that has no package) is still a *key* of the collection is not fixed by
it.  So the model keeps

    pairs           the relation itself (exact)
    pmax  >= dom    every name that may legitimately still be a package key
    tmax  >= ran    every name that may legitimately still be a tag key

and the oracle demands  dom(pairs) <= observed package keys <= pmax  (same for
tags), every key outside dom/ran mapping to the empty set.  Whenever no
tag-less package / package-less tag is around the sandwich is exact.

All operations are pure (return a new Rel).
"""


class Rel(object):
    __slots__ = ('pairs', 'pmax', 'tmax')

    def __init__(self, pairs=(), pmax=(), tmax=()):
        self.pairs = frozenset(pairs)
        self.pmax = frozenset(pmax) | frozenset(p for p, _ in self.pairs)
        self.tmax = frozenset(tmax) | frozenset(t for _, t in self.pairs)

    # -- views ----------------------------------------------------------
    def dom(self):
        return frozenset(p for p, _ in self.pairs)

    def ran(self):
        return frozenset(t for _, t in self.pairs)

    def fwd(self):
        d = {}
        for p, t in self.pairs:
            d.setdefault(p, set()).add(t)
        return d

    def inv(self):
        d = {}
        for p, t in self.pairs:
            d.setdefault(t, set()).add(p)
        return d

    def shared_tag(self):
        """True if some tag has >= 2 packages and some package has >= 2 tags."""
        return (any(len(v) > 1 for v in self.inv().values())
                and any(len(v) > 1 for v in self.fwd().values()))

    # -- operations -----------------------------------------------------
    @classmethod
    def from_lines(cls, entries, tag_pred=None):
        """entries: iterable of (pkgs, tags) as written on one tag line each."""
        pairs, pk = set(), set()
        for pkgs, tags in entries:
            pk.update(pkgs)
            for t in tags:
                if tag_pred is None or tag_pred(t):
                    for p in pkgs:
                        pairs.add((p, t))
        return cls(pairs, pk, ())

    def insert(self, pkg, tags):
        return Rel(self.pairs | {(pkg, t) for t in tags}, self.pmax | {pkg}, self.tmax | set(tags))

    def reversed(self):
        return Rel({(t, p) for p, t in self.pairs}, self.tmax, self.pmax)

    def same(self):
        return Rel(self.pairs, self.pmax, self.tmax)

    def keep_packages(self, pred):
        # a collection derived by choosing PACKAGES holds the tags of the chosen pairs and no others: a tag none of the
        # kept packages carries is not a tag of the result ("tag counts agree with a relation holding the same pairs")
        return Rel({(p, t) for p, t in self.pairs if pred(p)},
                   {p for p in self.pmax if pred(p)}, ())

    def keep_packages_tags(self, pred):
        fwd = self.fwd()
        keep = {p for p in self.pmax if pred((p, set(fwd.get(p, ()))))}
        return Rel({(p, t) for p, t in self.pairs if p in keep}, keep, ())

    def keep_tags(self, pred):
        return Rel({(p, t) for p, t in self.pairs if pred(t)},
                   self.pmax, {t for t in self.tmax if pred(t)})

    def choose(self, names):
        names = set(names)
        return Rel({(p, t) for p, t in self.pairs if p in names}, self.pmax & names, ())

    def map_tags(self, g):
        return Rel({(p, g(t)) for p, t in self.pairs}, self.pmax, {g(t) for t in self.tmax})
