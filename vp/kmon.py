"""Shared auxiliary K-monitors (DESIGN.md section 1.1) on the two hand-written
containers in debian._util:

  K1  attach_K1()  debian._util.LinkedList   link / head / tail / size bookkeeping
  K2  attach_K2()  debian._util.OrderedSet   hash table  <->  order list agreement

Both are representation invariants the code itself relies on, applied FROM THE
HARNESS with vp.contracts.wrap (no repository edit).  They are deliberately not
stricter than correct code:

* checked only at METHOD BOUNDARIES, and only at the boundary of the OUTERMOST
  monitored method of the class (``__init__ -> extend -> append`` is checked
  once, when ``__init__`` returns) - nothing is demanded of transient states;
* checked as PRESERVATION: the invariant is evaluated at entry as well, and a
  method is only blamed when the object satisfied the invariant on entry and
  does not satisfy it on normal exit.  ``LinkedList`` documents that it trades
  encapsulation for features ("we allow nodes to leak"): friends such as
  ``Deb822ParsedTokenList._remove_node`` splice node ranges out by hand without
  touching ``_size``.  A list that was put into such a state by code outside
  the class is not this monitor's business (``__init__`` and ``clear`` have no
  entry state and are checked absolutely);
* nothing is checked on exceptional exit;
* private attributes are read by (mangled) name; if one is renamed the monitor
  records itself in contracts.DETACHED and stays silent - never a violation.

Usage from a property module::

    from .. import kmon
    def setup(ctx):
        kmon.attach_K1(); kmon.attach_K2()
    def run_case(ctx, case):
        kmon.reset()            # cheap; re-arms the nesting counters
        ...
    def finish(ctx):
        contracts.flush_evals(ctx)      # K1 / K2 evaluation counters

A failure is reported through contracts.fail() as MonitorViolation with a
mechanism key ``K1/<what>-after-<method>`` / ``K2/<what>-after-<method>``.
"""
from __future__ import annotations

from . import contracts

_NEST = {'K1': 0, 'K2': 0}        # nesting depth of monitored methods, per monitor
_ATTACHED = {}
_MAX_WALK = 1000000               # a cyclic chain must not hang the monitor


def reset():
    """Re-arm the nesting counters (call at the start of every case: a
    MonitorViolation propagating through outer wrappers skips their exits)."""
    for k in _NEST:
        _NEST[k] = 0


def _fail(key, msg):
    reset()
    contracts.fail(key, msg)


class _Detached(Exception):
    pass


# ---------------------------------------------------------------------------
# K1  LinkedList

def k1_problem(lst):
    """None if the representation invariant of a LinkedList holds, else a
    (what, detail) pair.  Reads only; never raises for a renamed attribute."""
    try:
        head, tail, size = lst.head_node, lst.tail_node, lst._size
    except AttributeError as e:
        raise _Detached(str(e))
    try:
        if head is None or tail is None:
            if head is not None or tail is not None:
                return ('head-tail-disagree', 'exactly one of head_node/tail_node is None')
            if size != 0:
                return ('size', 'empty chain but _size=%r' % (size,))
            if bool(lst):
                return ('bool', 'empty list is truthy')
            return None
        if head.previous_node is not None:
            return ('head-has-predecessor', 'head_node.previous_node is not None')
        if tail.next_node is not None:
            return ('tail-has-successor', 'tail_node.next_node is not None')
        n = 0
        node = head
        last = None
        while node is not None:
            n += 1
            if n > _MAX_WALK or n > size + 1:
                break
            nxt = node.next_node
            if nxt is not None and nxt.previous_node is not node:
                return ('links-not-mutual', 'node #%d: next_node.previous_node is not the node' % (n - 1))
            last = node
            node = nxt
        if node is not None:
            return ('size', 'chain from head_node is longer than _size=%r' % (size,))
        if last is not tail:
            return ('tail-not-last', 'walking next_node from head_node ends at a node that is not tail_node')
        if n != size:
            return ('size', 'chain has %d nodes, _size=%r' % (n, size))
        if not bool(lst):
            return ('bool', 'non-empty list is falsy')
        if len(lst) != size:
            return ('len', 'len()=%r, _size=%r' % (len(lst), size))
    except AttributeError as e:
        raise _Detached(str(e))
    return None


# ---------------------------------------------------------------------------
# K2  OrderedSet

def k2_problem(oset):
    try:
        table = oset._OrderedSet__table
        order = oset._OrderedSet__order
        head = order.head_node
    except AttributeError as e:
        raise _Detached(str(e))
    try:
        n = 0
        node = head
        limit = len(table) + 1
        while node is not None:
            n += 1
            if n > limit:
                return ('order-longer-than-table', 'order list has more than %d nodes, table has %d keys'
                        % (limit - 1, len(table)))
            v = node.value
            try:
                t = table[v]
            except KeyError:
                return ('order-item-not-in-table', 'item #%d of the order list (%r) is not a table key' % (n - 1, v))
            if t is not node:
                return ('table-node-mismatch', 'table[%r] is not the order node holding it (stale or duplicate node)' % (v,))
            node = node.next_node
        if n != len(table):
            return ('table-longer-than-order', 'table has %d keys, order list has %d nodes' % (len(table), n))
        if len(oset) != n:
            return ('len', 'len()=%r but %d items' % (len(oset), n))
    except AttributeError as e:
        raise _Detached(str(e))
    return None


# ---------------------------------------------------------------------------

def _attach(cls, mon, problem, methods, absolute):
    """Wrap `methods` of `cls`; preservation semantics, outermost boundary only."""

    def detach(why):
        tag = '%s %s (%s)' % (mon, cls.__name__, why)
        if tag not in contracts.DETACHED:
            contracts.DETACHED.append(tag)

    def make(mname):
        def snapshot(self, *a, **kw):
            _NEST[mon] += 1
            if _NEST[mon] != 1:
                return None                     # nested: the outer boundary decides
            if mname in absolute:
                return ('ok',)
            try:
                return ('ok',) if problem(self) is None else ('broken-on-entry',)
            except _Detached as e:
                detach(e)
                return None
            except Exception as e:              # a monitor must never accuse because IT failed
                detach('monitor error %s' % type(e).__name__)
                return None

        def post(old, result, self, *a, **kw):
            _NEST[mon] = max(0, _NEST[mon] - 1)
            if _NEST[mon] != 0 or old is None or old[0] != 'ok':
                return
            try:
                p = problem(self)
            except _Detached as e:
                detach(e)
                return
            except Exception as e:
                detach('monitor error %s' % type(e).__name__)
                return
            if p is not None:
                _fail('%s/%s-after-%s' % (mon, p[0], mname.strip('_')),
                      '%s.%s left the %s inconsistent: %s' % (cls.__name__, mname, cls.__name__, p[1]))

        def on_raise(old, exc, self=None, *a, **kw):
            _NEST[mon] = max(0, _NEST[mon] - 1)

        return snapshot, post, on_raise

    n = 0
    for m in methods:
        if m not in cls.__dict__:
            continue
        snapshot, post, on_raise = make(m)
        if contracts.wrap(cls, m, mon, snapshot=snapshot, post=post, on_raise=on_raise) is not None:
            n += 1
    if not n:
        detach('no methods')
    return n


def attach_K1():
    """LinkedList: walking head_node -> next_node reaches tail_node in exactly
    _size steps; next/previous links are mutual; head has no predecessor, tail
    no successor; bool(l) == (_size > 0).  Returns the number of methods wrapped."""
    if 'K1' in _ATTACHED:
        return _ATTACHED['K1']
    from debian import _util
    cls = getattr(_util, 'LinkedList', None)
    if cls is None:
        contracts.DETACHED.append('K1 LinkedList (class missing)')
        _ATTACHED['K1'] = 0
        return 0
    methods = ['__init__', 'pop', 'remove_node', 'insert_at_head', 'append', 'insert_before', 'insert_after',
               'insert_node_before', 'insert_node_after', 'extend', 'clear']
    _ATTACHED['K1'] = _attach(cls, 'K1', k1_problem, methods, absolute=('__init__', 'clear'))
    return _ATTACHED['K1']


def attach_K2():
    """OrderedSet: the keys of the table are exactly the items of the order
    list, table[x] is the very node that holds x (hence no duplicates in the
    order), and len() agrees.  Returns the number of methods wrapped."""
    if 'K2' in _ATTACHED:
        return _ATTACHED['K2']
    from debian import _util
    cls = getattr(_util, 'OrderedSet', None)
    if cls is None:
        contracts.DETACHED.append('K2 OrderedSet (class missing)')
        _ATTACHED['K2'] = 0
        return 0
    # 'append' is a class-dict alias of 'add'; contracts.wrap re-binds aliases itself
    methods = ['__init__', 'add', 'remove', 'extend', 'order_last', 'order_first', 'order_before',
               'order_after', '_reorder']
    _ATTACHED['K2'] = _attach(cls, 'K2', k2_problem, methods, absolute=('__init__',))
    return _ATTACHED['K2']
