"""Auxiliary K-monitors on the format-preserving parser (DESIGN.md 1.1):

 K3  Deb822DuplicateFieldsParagraphElement: _kvpair_elements[name] is exactly the list of
     _kvpair_order nodes carrying that name, IN DOCUMENT ORDER ("(name, i) is the i-th occurrence")
 K4  Deb822NoDuplicateFieldsParagraphElement: order set and element map agree
 K5  parse_deb822_file (every binding, hence every internal re-parse too): dump() of the result
     equals the text of the lines that were fed in
 K6  after every structural mutator of a paragraph that lives in an error-free file, and after
     Deb822FileElement.insert/append: re-parsing the file's dump yields the same paragraphs with
     the same field names as the live object tree shows (text and tree have not diverged)

All are checked at method boundaries only (quiescent points), read private state by name and
detach silently when it is renamed.
"""
from __future__ import annotations

import functools

from . import contracts

_IN_K = [0]


def _names_live(para):
    return [str(k[0] if isinstance(k, tuple) else k) for k in para.iter_keys()]


def attach_K3_K4():
    from debian._deb822_repro import parsing as P

    def k3(self, meth):
        try:
            order, elements = self._kvpair_order, self._kvpair_elements
        except AttributeError:
            return
        seen = {}
        for node in order.iter_nodes():
            kv = node.value
            seen.setdefault(kv.field_name, []).append(node)
            # NB: kv.parent_element is deliberately NOT checked: Deb822DuplicateFieldsParagraphElement
            # .set_kvpair_element leaves it unset for a newly added field; that is not observable
            # through any behaviour the properties speak about (see DESIGN.md, C10).
        if set(seen) != set(elements):
            contracts.fail('K3/name-index-keys-differ-from-order-after-%s' % meth,
                           'index %r order %r' % (sorted(map(str, elements)), sorted(map(str, seen))))
        for name, nodes in elements.items():
            if not nodes:
                contracts.fail('K3/empty-node-list-after-%s' % meth, 'name %r' % (name,))
            want = seen[name]
            if len(want) != len(nodes) or any(a is not b for a, b in zip(want, nodes)):
                contracts.fail('K3/occurrence-index-not-in-document-order-after-%s' % meth,
                               'name %r: (name, i) no longer denotes the i-th occurrence' % (str(name),))

    def k4(self, meth):
        try:
            order, elements = self._kvpair_order, self._kvpair_elements
        except AttributeError:
            return
        o = list(order)
        if len(o) != len(elements) or set(o) != set(elements):
            contracts.fail('K4/order-and-element-map-differ-after-%s' % meth,
                           'order %r map %r' % (list(map(str, o)), list(map(str, elements))))
        for key, kv in elements.items():
            if kv.field_name != key:
                contracts.fail('K4/element-under-wrong-key-after-%s' % meth, '%r under %r' % (kv.field_name, key))

    muts = ['__init__', 'order_last', 'order_first', 'order_before', 'order_after', 'set_kvpair_element',
            'remove_kvpair_element', 'sort_fields']
    contracts.invariant(P.Deb822DuplicateFieldsParagraphElement, 'K3', k3, muts)
    contracts.invariant(P.Deb822NoDuplicateFieldsParagraphElement, 'K4', k4, muts)


def attach_K5():
    from debian._deb822_repro import parsing as P
    original = P.parse_deb822_file

    @functools.wraps(original)
    def parse_deb822_file(sequence, **kw):
        if _IN_K[0]:
            return original(sequence, **kw)
        lines = list(sequence)
        result = original(iter(lines), **kw)
        text_lines = [l.decode('utf-8') if isinstance(l, bytes) else l for l in lines]
        if len(text_lines) >= 2 and not text_lines[0].endswith('\n'):
            exp = ''.join(l + '\n' for l in text_lines)
        else:
            exp = ''.join(text_lines)
        contracts.EVALS['K5'] += 1
        _IN_K[0] += 1
        try:
            got = result.dump()
        finally:
            _IN_K[0] -= 1
        if got != exp:
            contracts.fail('K5/parse-not-lossless', 'fed %r, dump %r' % (exp[:300], got[:300]))
        return result

    parse_deb822_file.__vp_original__ = original
    P.parse_deb822_file = parse_deb822_file
    contracts._rebind_aliases(original, parse_deb822_file)


def attach_K6():
    from debian._deb822_repro import parsing as P

    def check_file(f, meth):
        if _IN_K[0]:
            return
        _IN_K[0] += 1
        try:
            if not isinstance(f, P.Deb822FileElement) or f.find_first_error_element() is not None:
                return
            live = [_names_live(p) for p in f if p.kvpair_count]
            text = f.dump()
            if text == '':
                return
            orig = getattr(P.parse_deb822_file, '__vp_original__', P.parse_deb822_file)
            re = orig(text.splitlines(keepends=True), accept_files_with_error_tokens=True,
                      accept_files_with_duplicated_fields=True)
            again = [_names_live(p) for p in re]
            errs = re.find_first_error_element() is not None
        finally:
            _IN_K[0] -= 1
        contracts.EVALS['K6.reparse'] += 1
        if errs:
            contracts.fail('K6/dump-no-longer-valid-after-%s' % meth, 'dump %r' % (text[-300:],))
        if again != live:
            contracts.fail('K6/text-and-tree-diverged-after-%s' % meth,
                           'live paragraphs %r, re-parsed dump %r' % (live, again))

    def post_file(old, result, self, *a, _m=None, **kw):
        check_file(self, _m)

    for m in ('insert', 'append'):
        contracts.wrap(P.Deb822FileElement, m, 'K6', post=functools.partial(post_file, _m=m))

    def post_para(old, result, self, *a, _m=None, **kw):
        parent = self.parent_element
        if parent is not None:
            check_file(parent, _m)

    for cls in (P.Deb822NoDuplicateFieldsParagraphElement, P.Deb822DuplicateFieldsParagraphElement):
        for m in ('order_last', 'order_first', 'order_before', 'order_after', 'set_kvpair_element',
                  'remove_kvpair_element', 'sort_fields'):
            contracts.wrap(cls, m, 'K6', post=functools.partial(post_para, _m=m))


def attach_all():
    attach_K3_K4()
    attach_K5()
    attach_K6()
