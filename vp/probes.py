"""Source-free probes: sys.monitoring reach counters / local-variable probes,
audit-hook event recorder, tracing file-object proxy."""
from __future__ import annotations

import collections
import importlib
import sys

mon = sys.monitoring
TOOL_REACH = 3
TOOL_LOCALS = 4


def resolve(spec):
    """'debian.arfile:ArMember.read' -> (object, code object)"""
    modname, _, path = spec.partition(':')
    obj = importlib.import_module(modname)
    for part in path.split('.'):
        if part.startswith('<') and part.endswith('>'):
            # '<name>': the function held in the closure variable `name` (decorated functions)
            fn = getattr(obj, '__vp_original__', obj)
            idx = fn.__code__.co_freevars.index(part[1:-1])
            obj = fn.__closure__[idx].cell_contents
            continue
        if isinstance(obj, type):
            # name-mangled privates
            if part.startswith('__') and not part.endswith('__'):
                part = '_%s%s' % (obj.__name__.lstrip('_'), part)
            obj = obj.__dict__[part]
        else:
            obj = getattr(obj, part)
    while hasattr(obj, '__vp_original__'):
        obj = obj.__vp_original__
    if isinstance(obj, (staticmethod, classmethod)):
        obj = obj.__func__
    if isinstance(obj, property):
        obj = obj.fget
    obj = getattr(obj, '__wrapped__', obj) if not hasattr(obj, '__code__') else obj
    return obj.__code__


def _code_lines(code):
    lines = set()
    for (_s, _e, ln) in code.co_lines():
        if ln is not None and ln != code.co_firstlineno:
            lines.add(ln)
    return lines


class AnchorReach(object):
    """Counts calls (PY_START) and distinct executed lines of the anchored code
    objects only.  LINE callbacks return DISABLE after the first hit of each
    line, so the steady-state cost is the PY_START counter alone."""

    def __init__(self, specs):
        self.specs = list(specs)
        self.codes = {}
        self.calls = collections.Counter()
        self.hit = collections.defaultdict(set)
        self.unresolved = []
        self.active = False

    def start(self):
        for spec in self.specs:
            try:
                self.codes[resolve(spec)] = spec
            except Exception as e:      # renamed/moved anchor: reported, never a verdict
                self.unresolved.append('%s (%s)' % (spec, type(e).__name__))
        if not self.codes:
            return
        mon.use_tool_id(TOOL_REACH, 'vp-reach')
        mon.register_callback(TOOL_REACH, mon.events.PY_START, self._on_start)
        mon.register_callback(TOOL_REACH, mon.events.LINE, self._on_line)
        for code in self.codes:
            mon.set_local_events(TOOL_REACH, code, mon.events.PY_START | mon.events.LINE)
        self.active = True

    def _on_start(self, code, offset):
        self.calls[code] += 1

    def _on_line(self, code, line):
        self.hit[code].add(line)
        return mon.DISABLE

    def stop(self):
        if not self.active:
            return
        for code in self.codes:
            mon.set_local_events(TOOL_REACH, code, 0)
        mon.register_callback(TOOL_REACH, mon.events.PY_START, None)
        mon.register_callback(TOOL_REACH, mon.events.LINE, None)
        mon.free_tool_id(TOOL_REACH)
        self.active = False

    def report(self):
        rep = {}
        for code, spec in self.codes.items():
            total = _code_lines(code)
            rep[spec] = {'calls': self.calls[code], 'lines_total': len(total),
                         'lines_hit': sorted(self.hit[code] & total)}
        for u in self.unresolved:
            rep['UNRESOLVED ' + u] = {'calls': 0, 'lines_total': 0, 'lines_hit': []}
        return rep


class LocalsProbe(object):
    """Calls cb(frame_locals) each time `lineno` of `code` is about to execute."""

    def __init__(self, code, lineno, cb):
        self.code, self.lineno, self.cb = code, lineno, cb

    def start(self):
        mon.use_tool_id(TOOL_LOCALS, 'vp-locals')
        mon.register_callback(TOOL_LOCALS, mon.events.LINE, self._on_line)
        mon.set_local_events(TOOL_LOCALS, self.code, mon.events.LINE)

    def _on_line(self, code, line):
        if line != self.lineno:
            return mon.DISABLE
        self.cb(sys._getframe(1).f_locals)

    def stop(self):
        mon.set_local_events(TOOL_LOCALS, self.code, 0)
        mon.register_callback(TOOL_LOCALS, mon.events.LINE, None)
        mon.free_tool_id(TOOL_LOCALS)


class Failpoint(object):
    """Raises `exc` the n-th time any line of the given code objects is about to
    execute (source-free failpoint).  With n=None only counts executed lines."""

    TOOL = 5

    def __init__(self, codes):
        self.codes = list(codes)
        self.n = None
        self.seen = 0
        self.fired_at = None
        self.exc = None

    def start(self):
        mon.use_tool_id(self.TOOL, 'vp-failpoint')
        mon.register_callback(self.TOOL, mon.events.LINE, self._on_line)
        for c in self.codes:
            mon.set_local_events(self.TOOL, c, mon.events.LINE)

    def arm(self, n, exc):
        self.n, self.exc, self.seen, self.fired_at = n, exc, 0, None

    def _on_line(self, code, line):
        self.seen += 1
        if self.n is not None and self.seen == self.n:
            self.fired_at = (code.co_name, line)
            raise self.exc

    def stop(self):
        for c in self.codes:
            mon.set_local_events(self.TOOL, c, 0)
        mon.register_callback(self.TOOL, mon.events.LINE, None)
        mon.free_tool_id(self.TOOL)


class AuditLog(object):
    """Records selected audit events while `on`.  Audit hooks cannot be removed,
    so one recorder is installed per process and switched."""

    _installed = None

    def __init__(self, names=('open', 'os.rename', 'os.remove', 'urllib.Request')):
        self.names = set(names)
        self.events = []
        self.on = False
        if AuditLog._installed is None:
            AuditLog._installed = self
            sys.addaudithook(AuditLog._hook)

    @staticmethod
    def _hook(event, args):
        self = AuditLog._installed
        if self is not None and self.on and event in self.names:
            self.events.append((event,) + tuple(a if isinstance(a, (str, int, bytes, type(None))) else repr(a)
                                                for a in args[:3]))

    def __enter__(self):
        self.events = []
        self.on = True
        return self

    def __exit__(self, *a):
        self.on = False


class TracingFile(object):
    """Proxy around a binary file object recording every data-returning call with
    the absolute offset it was served from."""

    def __init__(self, fp):
        self._fp = fp
        self.log = []      # (op, start_offset, bytes_returned)

    def read(self, *a):
        pos = self._fp.tell()
        data = self._fp.read(*a)
        self.log.append(('read', pos, len(data)))
        return data

    def readline(self, *a):
        pos = self._fp.tell()
        data = self._fp.readline(*a)
        self.log.append(('readline', pos, len(data)))
        return data

    def seek(self, *a):
        return self._fp.seek(*a)

    def tell(self):
        return self._fp.tell()

    def close(self):
        return self._fp.close()

    def __getattr__(self, name):
        return getattr(self._fp, name)
