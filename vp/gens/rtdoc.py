"""Generator of valid deb822 documents for the format-preserving parser, together
with an exact *layout model*: the generator knows the byte span of every field,
of its own comment lines and of every separator, and the semantic value each
field must read back as.  Shared by C05 / C10 / C11.

Document model (all JSON-able):
  {'lead': str, 'paras': [[field, ...], ...], 'seps': [str, ...], 'trail': str, 'final_newline': bool}
  field = {'name': str, 'comments': str, 'body': str, 'value': str, 'id': str}
text(doc) = lead + para0 + seps[0] + para1 + ... + trail   (minus the last '\n' if not final_newline)
para      = concatenation of field['comments'] + field['body']
"""

NAMES = ['Package', 'Source', 'Depends', 'Description', 'X-Foo', 'foo', 'Architecture', 'A', 'b1', 'Build-Depends',
         'Homepage', 'section', 'Priority', 'Vcs-Git', 'XB-Y', 'Z', 'Files', 'Uploaders', 'Maintainer', 'Rules-Requires-Root']
SEPS = ['\n', '\n', '\n\n', ' \n', '\n# free comment\n\n', '\n\n# free 1\n# free 2\n\n', '\t\n', '\n#free  \n#\n\n']
LEADS = ['', '', '', '\n', '# leading comment\n\n', '\n\n', '# l1\n# l2\n\n']
TRAILS = ['', '', '', '\n', '\n\n', '\n# trailing comment\n', '# directly trailing comment\n']
WORDS = [':', '#', ',', '=', '\xe9', '(>= 1.0)', '|', '${x}', 'B:', '-', '.', '<a@b.c>']


class Ids(object):
    def __init__(self):
        self.n = 0

    def next(self, prefix='v'):
        self.n += 1
        return '%s%d' % (prefix, self.n)


def gen_content(r, ids, allow_empty=False):
    if allow_empty and r.random() < .12:
        return ''
    parts = [ids.next()]
    for _ in range(r.choice([0, 0, 1, 2])):
        parts.append(r.choice(WORDS) if r.random() < .5 else ids.next())
    r.shuffle(parts)
    if parts[0] == '#' and r.random() < .5:      # a first-line value starting with '#' is exotic; keep some
        parts.reverse()
    return r.choice([' ', ' ', '  ', ', ']).join(parts).strip()


def gen_comment_line(r, ids, prefix='c'):
    """One comment line; includes layouts a re-rendering would normalise away (no blank after '#', trailing
    blanks/tabs, the bare '#')."""
    k = r.random()
    if k < .6:
        return '# %s\n' % ids.next(prefix)
    if k < .75:
        return '# %s%s\n' % (ids.next(prefix), r.choice([' ', '  ', '\t']))
    if k < .85:
        return '#%s\n' % ids.next(prefix)
    if k < .93:
        return '#   %s  x\n' % ids.next(prefix)
    return r.choice(['#\n', '# \n', '#\t\n'])


def gen_field(r, ids, name, max_cont=3):
    comments = ''.join(gen_comment_line(r, ids) for _ in range(r.choice([0, 0, 0, 1, 2])))
    after = r.choice(['', ' ', ' ', ' ', '\t', '  '])
    ncont = r.choice([0, 0, 0, 1, 2, 3][:max_cont + 3])
    first = gen_content(r, ids, allow_empty=True)
    if first == '' and ncont == 0 and r.random() < .7:
        first = ids.next()
    trail = r.choice(['', '', '', ' ', '\t'])
    body = '%s:%s%s%s\n' % (name, after, first, trail)
    vals = [first]
    pending_comment = False
    for i in range(ncont):
        if r.random() < .25:
            body += gen_comment_line(r, ids, 'ic')
        marker = r.choice([' ', ' ', '\t', '  ', ' \t'])
        content = gen_content(r, ids)
        if content.startswith('#') and marker in (' ', '\t') and False:
            pass
        t = r.choice(['', '', ' ', '\t'])
        line = marker + content + t
        body += line + '\n'
        vals.append(line)
    value = '\n'.join(vals) if len(vals) > 1 else first
    return {'name': name, 'comments': comments, 'body': body, 'value': value, 'id': ids.next('f')}


BIG_NAMES = NAMES + ['X-Field-%d' % i for i in range(60)] + ['f%d' % i for i in range(40)]


def gen_doc(r, max_paras=4, max_fields=5, dup_rate=0.0, allow_no_final_newline=True, big=False):
    """big: a document an order of magnitude beyond the usual sizes (8..30 paragraphs of 10..40 fields) - whatever is only
    right for a handful of fields or paragraphs shows there."""
    ids = Ids()
    nparas = r.choice([1, 1, 2, 2, 3, 4][:max_paras + 2])
    if big:
        nparas = r.randint(8, 30)
    paras = []
    for _ in range(nparas):
        nf = r.randint(1, max_fields)
        if big:
            nf = r.randint(10, 40)
        names = []
        folded = set()
        while len(names) < nf:
            if names and r.random() < dup_rate:
                n = r.choice(names)
                if r.random() < .3:
                    n = n.swapcase()
                names.append(n)
                continue
            n = r.choice(BIG_NAMES if big else NAMES)
            if r.random() < .15:
                n = n.upper()
            if n.lower() in folded:
                continue
            folded.add(n.lower())
            names.append(n)
        paras.append([gen_field(r, ids, n) for n in names])
    doc = {'lead': r.choice(LEADS), 'paras': paras, 'seps': [r.choice(SEPS) for _ in range(nparas - 1)],
           'trail': r.choice(TRAILS), 'final_newline': True}
    if allow_no_final_newline and doc['trail'] == '' and r.random() < .35:
        doc['final_newline'] = False
    return doc


def para_text(fields):
    return ''.join(f['comments'] + f['body'] for f in fields)


def doc_text(doc):
    out = [doc['lead']]
    for i, p in enumerate(doc['paras']):
        if i:
            out.append(doc['seps'][i - 1])
        out.append(para_text(p))
    out.append(doc['trail'])
    t = ''.join(out)
    if not doc['final_newline']:
        assert t.endswith('\n')
        t = t[:-1]
    return t


def doc_value(field, is_very_last, final_newline):
    """Semantic value a field reads back as through the dict interface."""
    return field['value']


def has_comments(doc):
    if '#' in doc['lead'] or '#' in doc['trail'] or any('#' in s for s in doc['seps']):
        return True
    return any(f['comments'] or '\n#' in f['body'] for p in doc['paras'] for f in p)


def has_multiline(doc):
    return any(f['body'].count('\n') > 1 for p in doc['paras'] for f in p)
