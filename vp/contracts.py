"""In-tree contract shim (see DESIGN.md section 1): pre/post/invariant conditions
applied FROM THE HARNESS to live classes and functions of the repository.

* named condition functions; ``old`` snapshot taken at entry;
* post-conditions on normal exit, optional check on exceptional exit;
* every alias of the wrapped callable is re-bound (class-dict aliases such as
  ``OrderedSet.append = add`` and module-level ``from m import f`` bindings in
  every loaded ``debian*`` module) - a contract bypassed by an earlier binding
  observes nothing;
* per-condition evaluation counters (zero evaluations => inconclusive);
* failures are appended to PENDING and raised as MonitorViolation (a
  BaseException, so ``except Exception`` in the observed code cannot hide it).
"""
from __future__ import annotations

import collections
import functools
import sys

from .core import MonitorViolation

PENDING = []                      # (key, msg) recorded during the current case
EVALS = collections.Counter()     # monitor id -> evaluations
DETACHED = []                     # monitors that could not attach (renamed privates)
_DEPTH = [0]                      # re-entrancy guard: conditions do not monitor themselves


def fail(key, msg):
    PENDING.append((key, msg))
    raise MonitorViolation(key, msg)


def _rebind_aliases(original, replacement, owner=None):
    n = 0
    if owner is not None:
        for name, val in list(vars(owner).items()):
            if val is original:
                setattr(owner, name, replacement)
                n += 1
    for modname, mod in list(sys.modules.items()):
        if mod is None or not (modname == 'debian' or modname.startswith('debian.')):
            continue
        for name, val in list(vars(mod).items()):
            if val is original:
                setattr(mod, name, replacement)
                n += 1
    return n


def wrap(owner, name, monitor_id, pre=None, post=None, on_raise=None, snapshot=None):
    """Wrap ``owner.name`` (class attribute or module function).

    snapshot(*a, **kw) -> old            (entry)
    pre(*a, **kw)                        (entry)
    post(old, result, *a, **kw)          (normal exit)
    on_raise(old, exc, *a, **kw)         (exceptional exit)
    Conditions call ``fail(key, msg)`` to report.
    """
    try:
        original = owner.__dict__[name] if isinstance(owner, type) else getattr(owner, name)
    except (KeyError, AttributeError):
        DETACHED.append('%s.%s' % (getattr(owner, '__name__', owner), name))
        return None
    func = original
    is_static = isinstance(original, staticmethod)
    is_class = isinstance(original, classmethod)
    if is_static or is_class:
        func = original.__func__

    @functools.wraps(func)
    def wrapper(*a, **kw):
        if _DEPTH[0]:
            return func(*a, **kw)
        old = None
        _DEPTH[0] += 1
        try:
            if snapshot is not None:
                old = snapshot(*a, **kw)
            if pre is not None:
                pre(*a, **kw)
        finally:
            _DEPTH[0] -= 1
        try:
            result = func(*a, **kw)
        except MonitorViolation:
            raise
        except BaseException as exc:
            if on_raise is not None:
                _DEPTH[0] += 1
                try:
                    EVALS[monitor_id] += 1
                    on_raise(old, exc, *a, **kw)
                finally:
                    _DEPTH[0] -= 1
            raise
        if post is not None:
            _DEPTH[0] += 1
            try:
                EVALS[monitor_id] += 1
                post(old, result, *a, **kw)
            finally:
                _DEPTH[0] -= 1
        return result

    wrapper.__vp_original__ = original
    replacement = wrapper
    if is_static:
        replacement = staticmethod(wrapper)
    elif is_class:
        replacement = classmethod(wrapper)
    if isinstance(owner, type):
        setattr(owner, name, replacement)
        _rebind_aliases(original, replacement, owner)
    else:
        setattr(owner, name, replacement)
        _rebind_aliases(original, replacement)
    return wrapper


def wrap_generator_result(owner, name, monitor_id, observe):
    """For functions returning an iterator: tee what is produced and call
    observe(args, kwargs, produced_list) when the iterator is exhausted."""
    try:
        original = getattr(owner, name)
    except AttributeError:
        DETACHED.append('%s.%s' % (getattr(owner, '__name__', owner), name))
        return None

    @functools.wraps(original)
    def wrapper(*a, **kw):
        it = original(*a, **kw)
        if _DEPTH[0]:
            return it

        def gen():
            produced = []
            for x in it:
                produced.append(x)
                yield x
            _DEPTH[0] += 1
            try:
                EVALS[monitor_id] += 1
                observe(a, kw, produced)
            finally:
                _DEPTH[0] -= 1
        return gen()

    setattr(owner, name, wrapper)
    _rebind_aliases(original, wrapper)
    return wrapper


def invariant(cls, monitor_id, cond, methods):
    """Check ``cond(self)`` after ``__init__`` and after every listed method
    (normal exit only; method boundaries are the quiescent points)."""
    attached = 0
    for m in methods:
        if m not in cls.__dict__:
            continue

        def post(old, result, self, *a, _m=m, **kw):
            cond(self, _m)
        if wrap(cls, m, monitor_id, post=post) is not None:
            attached += 1
    if not attached:
        DETACHED.append('%s (no methods)' % cls.__name__)
    return attached


def flush_evals(ctx):
    for k, v in EVALS.items():
        ctx.monitor_evals[k] += v
    EVALS.clear()
    if DETACHED:
        ctx.extra.setdefault('detached_monitors', [])
        for d in DETACHED:
            if d not in ctx.extra['detached_monitors']:
                ctx.extra['detached_monitors'].append(d)
