#!/venv/bin/python
"""Development machinery (not a MANIFEST check): proves that each monitor can fire.

For every hand-written mutant (a realistic maintainer slip: search/replace on one file) it copies
/repo/lib to a scratch dir OUTSIDE /repo and /verif, applies the mutation, runs the repository's own
tests there (a mutant they catch is uninteresting), runs `./check <PROP> quick` with VP_REPO=<scratch>
(evidence/replays redirected to the scratch dir), and reports the exit code.  The scratch dir is
removed afterwards.

usage: tools/selftest.py [PROP ...]        (default: all)
"""
import json
import os
import shutil
import subprocess
import sys
import tempfile

VERIF = os.path.dirname(os.path.dirname(os.path.abspath(__file__)))
M = []


def mutant(prop, name, path, old, new, count=1):
    M.append(dict(prop=prop, name=name, path=path, old=old, new=new, count=count))


TOK = 'lib/debian/_deb822_repro/tokens.py'
PAR = 'lib/debian/_deb822_repro/parsing.py'
AR = 'lib/debian/arfile.py'
DS = 'lib/debian/debian_support.py'
UT = 'lib/debian/_util.py'

# ---- C01
mutant('C01', 'drop-space-after-value', TOK, "            if space_after:\n                yield Deb822WhitespaceToken(sys.intern(space_after))\n            if emit_newline_token:",
       "            if space_after and not value:\n                yield Deb822WhitespaceToken(sys.intern(space_after))\n            if emit_newline_token:")
mutant('C01', 'value-line-loses-leading-ws', PAR, "                    leading_whitespace = cast('Deb822WhitespaceToken', tokens_in_value[0])\n                    tokens_in_value = tokens_in_value[1:]",
       "                    leading_whitespace = None\n                    tokens_in_value = tokens_in_value[1:]")
mutant('C01', 'cr-stripped-from-comment', TOK, "        if line[0] == '#':\n            yield Deb822CommentToken(line)",
       "        if line[0] == '#':\n            yield Deb822CommentToken(line.replace('\\r', ''))")
mutant('C01', 'revert-ws-merge-fix', TOK, 'lambda x: x.endswith("\\n") != auto_correct_newlines\n                and _RE_WHITESPACE_LINE.match(x) is not None',
       'lambda x: _RE_WHITESPACE_LINE.match(x) is not None')
# ---- C03
mutant('C03', 'tilde-orders-as-zero', DS, "        if x == '~':\n            return -1", "        if x == '~':\n            return 0")
mutant('C03', 'pad-with-empty-not-zero', DS, '        while la or lb:\n            a = "0"\n            b = "0"', '        while la or lb:\n            a = ""\n            b = ""')
mutant('C03', 'letters-shifted', DS, "        if cls.re_alpha.match(x):\n            return ord(x)", "        if cls.re_alpha.match(x):\n            return ord(x) + 256")
mutant('C03', 'hash-back-to-spelling', DS, "        return hash((int(self.epoch or \"0\"), norm(self.upstream_version),\n                     norm(self.debian_revision)))",
       "        return hash(str(self))")
mutant('C03', 'hash-memoised-across-assignment', DS, "        return hash((int(self.epoch or \"0\"), norm(self.upstream_version),\n                     norm(self.debian_revision)))",
       "        if '_hmemo' in self.__dict__:\n            return self.__dict__['_hmemo']\n        h = hash((int(self.epoch or \"0\"), norm(self.upstream_version),\n                     norm(self.debian_revision)))\n        object.__setattr__(self, '_hmemo', h)\n        return h")
mutant('C03', 'epoch-compared-as-string', DS, '        lepoch = int(self.epoch or "0")\n        repoch = int(other.epoch or "0")', '        lepoch = self.epoch or "0"\n        repoch = other.epoch or "0"')
# ---- C05
mutant('C05', 'comment-handover-dropped', PAR, "                value.comment_element = original.comment_element\n                original.comment_element = None",
       "                original.comment_element = None")
mutant('C05', 'existing-field-moved-to-end', PAR, "        self._kvpair_elements[key] = value\n        self._kvpair_order.append(key)",
       "        self._kvpair_elements[key] = value\n        if original_value is not None:\n            self._kvpair_order.remove(key)\n        self._kvpair_order.append(key)")
mutant('C05', 'set-keeps-callers-case', PAR, "            cased_field_name = original.field_name", "            cased_field_name = field_name")
mutant('C05', 'final-newline-not-supplied-on-add', PAR, "        if original_value is None:\n            # The new field is placed after the (current) last field\n            self._ensure_final_newline()\n", "")
mutant('C05', 'multiline-first-line-not-stripped', PAR, 'value = "".join((" ", first_line.strip(), "\\n", rest))', 'value = "".join((" ", first_line, "\\n", rest))')
# ---- C06
mutant('C06', 'no-reposition-before-read', AR, "            self.__fp = open(self.__fname, \"rb\")  # pylint: disable = consider-using-with\n        self.__fp.seek(self.__cur)\n\n        if 0 < size",
       "            self.__fp = open(self.__fname, \"rb\")  # pylint: disable = consider-using-with\n\n        if 0 < size")
mutant('C06', 'padding-rule-inverted', AR, "            if newmember.size % 2 == 0:   # even, no padding", "            if newmember.size % 2 == 1:   # even, no padding")
mutant('C06', 'read-clamp-off-by-one', AR, "        if 0 < size <= self.__end - self.__cur:   # there's room", "        if 0 < size <= self.__end - self.__cur + 1:   # there's room")
mutant('C06', 'getmember-first-match', AR, "            self.__members_dict[newmember.name] = newmember", "            self.__members_dict.setdefault(newmember.name, newmember)")
mutant('C06', 'readline-clamp-removed', AR, "        if size is None or size < 0 or size > remaining:\n            size = remaining", "        if size is None or size < 0:\n            size = -1")
mutant('C06', 'uid-width-off', AR, "        f.__owner = int(buf[28:34])", "        f.__owner = int(buf[28:33])")
# ---- C10
mutant('C10', 'order-after-without-reversed', PAR, "        for node in reversed(nodes_being_relocated):\n            kvpair_order.remove_node(node)\n            kvpair_order.insert_node_after(node, reference_node)",
       "        for node in nodes_being_relocated:\n            kvpair_order.remove_node(node)\n            kvpair_order.insert_node_after(node, reference_node)")
mutant('C10', 'regenerate-order-skipped', PAR, "        if len(nodes_being_relocated) == 1 and len(nodes) > 1:\n            # Regenerate the (new) relative field order.\n            field_name = nodes_being_relocated[0].value.field_name\n            self._regenerate_relative_kvapir_order(field_name)\n\n    def order_after",
       "\n    def order_after")
mutant('C10', 'insert-without-separating-newline', PAR, "            if needs_newline:\n                # Remember to inject", "            if needs_newline and idx == 0:\n                # Remember to inject")
mutant('C10', 'unindexed-set-keeps-other-occurrences', PAR, "        if replace_all and len(original_nodes) != 1:\n            # If we were in a replace-all mode, discard any remaining nodes\n            for n in original_nodes[1:]:",
       "        if replace_all and len(original_nodes) != 1:\n            # If we were in a replace-all mode, discard any remaining nodes\n            for n in original_nodes[2:]:")
mutant('C10', 'order-first-unreversed-again', PAR, "        for node in reversed(nodes_being_relocated):\n            if kvpair_order.head_node is node:", "        for node in nodes_being_relocated:\n            if kvpair_order.head_node is node:")
mutant('C10', 'append-does-not-terminate-last-field', PAR, "            if isinstance(tail_element, Deb822ParagraphElement):\n                # The separator below must not double as the missing final newline\n                # of the previous paragraph (or the two paragraphs would be merged).\n                tail_element._ensure_final_newline()\n", "")
mutant('C10', 'before-uses-last-occurrence', PAR, "        reference_node = reference_nodes[0]\n        if reference_node in nodes_being_relocated:", "        reference_node = reference_nodes[-1]\n        if reference_node in nodes_being_relocated:")
# ---- C11
mutant('C11', 'remove-always-deletes-left', PAR, "        if first_value_on_lhs is not None and not comment_before_previous_value:\n            # Delete left\n            delete_lhs_of_node = True\n        elif first_value_on_rhs is not None and not comment_before_next_value:\n            # Delete right\n            delete_lhs_of_node = False\n        else:",
       "        if first_value_on_lhs is not None:\n            # Delete left\n            delete_lhs_of_node = True\n        else:")
mutant('C11', 'separator-without-continuation-marker', PAR, "        self._changed = True\n        self._append_continuation_line_token_if_necessary()\n        self._token_list.append(separator_token)", "        self._changed = True\n        self._token_list.append(separator_token)")
mutant('C11', 'exit-always-rewrites', PAR, "        if exc_type is None and self._changed:\n            self._update_field()", "        if exc_type is None:\n            self._update_field()")
mutant('C11', 'comma-word-not-trimmed', TOK, "    (?P<word> [^,\\s] (?: [^,]*[^,\\s])? )?", "    (?P<word> [^,\\s] (?: [^,]*)? )?")
mutant('C11', 'replace-hits-last-instance', PAR, "        for node in self._token_list.iter_nodes():\n            if isinstance(node.value, vtype) and self._render(node.value) == orig_value:\n                node.value = self._value_factory(new_value)\n                self._changed = True\n                break",
       "        for node in reversed(list(self._token_list.iter_nodes())):\n            if isinstance(node.value, vtype) and self._render(node.value) == orig_value:\n                node.value = self._value_factory(new_value)\n                self._changed = True\n                break")
# ---- C19
mutant('C19', 'hash-check-after-replace', DS, "    new_hash = read_lines(lines)\n    if new_hash != remote_hash:\n        raise ValueError(\"patch failed, got %s instead of %s\"\n                         % (new_hash, remote_hash))\n\n    replace_file(lines, local)\n    return lines",
       "    replace_file(lines, local)\n    new_hash = read_lines(lines)\n    if new_hash != remote_hash:\n        raise ValueError(\"patch failed, got %s instead of %s\"\n                         % (new_hash, remote_hash))\n    return lines")
mutant('C19', 'finally-becomes-except', DS, "        os.rename(local_new, local)\n    finally:\n        if os.path.exists(local_new):\n            os.unlink(local_new)",
       "        os.rename(local_new, local)\n    except IOError:\n        if os.path.exists(local_new):\n            os.unlink(local_new)\n        raise")
mutant('C19', 'write-straight-to-local', DS, "    local_new = local + '.new'\n\n    try:", "    local_new = local\n\n    try:")
mutant('C19', 'only-first-patch-applied', DS, "                    if patches_to_apply or hist_hash == local_hash:", "                    if hist_hash == local_hash:")
mutant('C19', 'patch-hash-not-checked', DS, "        if read_lines(patch_contents) != patch_hashes[patch_name]:", "        if False and read_lines(patch_contents) != patch_hashes[patch_name]:")
mutant('C19', 'garbled-patch-falls-through-to-write', DS, "    if new_hash != remote_hash:\n        raise ValueError(", "    if new_hash != remote_hash and verbose:\n        raise ValueError(")
mutant('C19', 'always-full-download', DS, "    if not patches_to_apply:\n        if verbose:", "    if not patches_to_apply or len(patches_to_apply) > 1:\n        if verbose:")


def run(cmd, **kw):
    return subprocess.run(cmd, stdout=subprocess.PIPE, stderr=subprocess.STDOUT, **kw)


mutant('C19', 'index-cached-per-url', DS, "        with urlopen(index_name) as index_url:\n            index_fields = list(PackageFile(index_name, index_url))",
       "        _c = update_file.__dict__.setdefault('_index_cache', {})\n        if index_name not in _c:\n            with urlopen(index_name) as index_url:\n                _c[index_name] = list(PackageFile(index_name, index_url))\n        index_fields = _c[index_name]")
def main(argv):
    want = set(a.upper() for a in argv)
    results = []
    for m in M:
        if want and m['prop'] not in want:
            continue
        d = tempfile.mkdtemp(prefix='vp-mut-%s-' % m['prop'])
        try:
            shutil.copytree('/repo/lib', os.path.join(d, 'lib'), ignore=shutil.ignore_patterns('__pycache__'))
            p = os.path.join(d, m['path'])
            s = open(p).read()
            if s.count(m['old']) != m['count']:
                results.append((m['prop'], m['name'], 'MUTATION-SITE-NOT-FOUND', '', ''))
                print(results[-1])
                continue
            open(p, 'w').write(s.replace(m['old'], m['new']))
            env = dict(os.environ, PYTHONPATH=os.path.join(d, 'lib'), PYTHONDONTWRITEBYTECODE='1')
            t = run(['/venv/bin/python', '-m', 'pytest', '-q', '-p', 'no:cacheprovider', '-x', 'lib/debian/tests'], cwd=d, env=env)
            tests = t.stdout.decode().strip().splitlines()[-1] if t.stdout.strip() else '?'
            env2 = dict(os.environ, VP_REPO=d, VP_EVIDENCE_DIR=os.path.join(d, 'ev'), VP_REPLAY_DIR=os.path.join(d, 'rp'))
            c = run([os.path.join(VERIF, 'check'), m['prop'], 'quick'], cwd=VERIF, env=env2)
            out = c.stdout.decode()
            keys = [l.strip() for l in out.splitlines() if 'mechanisms observed' in l]
            results.append((m['prop'], m['name'], 'check_exit=%d' % c.returncode, 'repo-tests: ' + tests, keys[0][:300] if keys else ''))
            print(results[-1], flush=True)
        finally:
            shutil.rmtree(d, ignore_errors=True)
    missed = [r for r in results if r[2] != 'check_exit=1']
    print('\n%d mutants, %d not caught' % (len(results), len(missed)))
    for r in missed:
        print('  MISSED', r)
    return 0


if __name__ == '__main__':
    sys.exit(main(sys.argv[1:]))
