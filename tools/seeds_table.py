#!/venv/bin/python
"""Rewrites the seeded-changes table in DESIGN.md (between the SEEDS-TABLE markers) from /verif/seeded/*/meta.json."""
import glob, json, os, re
rows = []
n = det = 0
for d in sorted(glob.glob('/verif/seeded/C*')):
    m = json.load(open(d + '/meta.json'))
    mech = m['check_result'].get('mechanisms') or {}
    keys = ', '.join('`%s`' % k for k in sorted(mech, key=lambda k: -mech[k])[:2]) or '(see meta.json)'
    summ = re.sub(r'\s+', ' ', (m.get('summary') or '').replace('|', '/'))[:150]
    need = re.sub(r'\s+', ' ', (m.get('needs_to_manifest') or '').replace('|', '/'))[:130]
    ok = m['check_result']['detected']
    n += 1
    det += bool(ok)
    first = m.get('first_result')
    note = '' if not first else ' (first run: %s)' % first
    rows.append('| %s | %s… | %s… | %s%s |' % (os.path.basename(d), summ, need, keys if ok else '**NOT DETECTED**', note))
table = '| seed | change (abridged) | needs | detected (quick tier) as |\n|------|-------------------|-------|--------------------------|\n' + '\n'.join(rows)
table += '\n\n%d seeded changes kept, %d detected by the quick tier as of the last evaluation.' % (n, det)
p = '/verif/DESIGN.md'
s = open(p).read()
a, b = '<!-- SEEDS-TABLE-BEGIN -->', '<!-- SEEDS-TABLE-END -->'
assert a in s and b in s
s = s[:s.index(a) + len(a)] + '\n' + table + '\n' + s[s.index(b):]
open(p, 'w').write(s)
print(n, det)
