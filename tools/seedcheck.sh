#!/bin/bash
# tools/seedcheck.sh <PROP> <seed-dir> [tier]
# Confirms a seeded breaking change (patch.diff + demo.py) in a scratch git worktree of /repo (outside /repo and /verif)
# and runs the property's check against it.  Leaves nothing behind.  Output: one summary line + details.
PROP=$1; SD=$(readlink -f "$2"); TIER=${3:-quick}
W=$(mktemp -d /tmp/sc_${PROP}_XXXX); rmdir "$W"
git -C /repo worktree add --detach "$W" HEAD -q || exit 2
cleanup() { git -C /repo worktree remove --force "$W" 2>/dev/null; rm -rf "$W" "$OUT"; }
OUT=$(mktemp -d /tmp/sco_XXXX)
trap cleanup EXIT
if ! git -C "$W" apply "$SD/patch.diff" 2>"$OUT/apply.err"; then
  if ! git -C "$W" apply --3way "$SD/patch.diff" 2>>"$OUT/apply.err"; then echo "SEED $PROP $(basename $SD): PATCH-DOES-NOT-APPLY"; cat "$OUT/apply.err"; exit 3; fi
fi
T=$(cd "$W" && PYTHONPATH="$W/lib" /venv/bin/python -m pytest -q -p no:cacheprovider 2>&1 | tail -1)
PYTHONPATH=/repo/lib /venv/bin/python "$SD/demo.py" >"$OUT/demo0.txt" 2>&1; D0=$?
PYTHONPATH="$W/lib" /venv/bin/python "$SD/demo.py" >"$OUT/demo1.txt" 2>&1; D1=$?
cd /verif && VP_REPO="$W" VP_EVIDENCE_DIR="$OUT/ev" VP_REPLAY_DIR="$OUT/rp" ./check "$PROP" "$TIER" >"$OUT/check.txt" 2>&1; C=$?
echo "SEED $PROP $(basename $SD): tests=[$T] demo_pristine=$D0 demo_mutant=$D1 check_exit=$C"
grep -E "mechanisms observed|^INCONCLUSIVE" "$OUT/check.txt" | cut -c1-600
grep -A1 "^VIOLATION" "$OUT/check.txt" | grep mechanism | cut -c1-300 | head -4
