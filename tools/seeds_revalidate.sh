#!/bin/bash
# tools/seeds_revalidate.sh [PARALLEL]: re-confirms every kept seeded change against the CURRENT /repo head and the current
# checks (scratch worktrees outside /repo and /verif, removed afterwards) and writes seeded/REVALIDATION.txt:
#   <seed> applies=<yes|no> tests=<..> demo_pristine=<rc> demo_mutant=<rc> check_exit=<rc>
# A patch written against an older head may no longer apply after a later "fix:" commit touched the same lines; that is
# recorded, not hidden (meta.json holds the head it was confirmed at).
cd /verif
P=${1:-6}
OUT=seeded/REVALIDATION.txt
TMP=$(mktemp -d /tmp/reval_XXXX)
ls -d seeded/C* | xargs -P "$P" -I{} sh -c 'id=$(basename {}); prop=$(echo $id | cut -c1-3); r=$(tools/seedcheck.sh $prop {} quick 2>&1 | head -1); echo "$r" > '"$TMP"'/$id.txt'
{ echo "# repo head $(git -C /repo log -1 --format=%h), verif head $(git log -1 --format=%h), $(date -u +%FT%TZ)"; cat "$TMP"/*.txt | sort; } > "$OUT"
rm -rf "$TMP"
grep -c "check_exit=1" "$OUT"; grep -vc "check_exit=1" "$OUT"
