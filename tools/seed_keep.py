#!/venv/bin/python
"""tools/seed_keep.py PROP VARIANT [tier]: confirm a sub-agent's seeded change (in /tmp/seedout/PROP/VARIANT) via
tools/seedcheck.sh and, if confirmed (patch applies, repo tests still pass, demo passes on pristine and fails on the
changed tree), keep it as /verif/seeded/<PROP><VARIANT>/ with what was run and what the check reported."""
import json, os, re, shutil, subprocess, sys
prop, var = sys.argv[1], sys.argv[2]
tier = sys.argv[3] if len(sys.argv) > 3 else 'quick'
src = '%s/%s/%s' % (os.environ.get('SEEDSRC', '/tmp/seedout'), prop, var)
out = subprocess.run(['/verif/tools/seedcheck.sh', prop, src, tier], stdout=subprocess.PIPE, stderr=subprocess.STDOUT).stdout.decode('utf-8', 'replace')
print(out[:1500])
m = re.search(r'tests=\[(.*?)\] demo_pristine=(\d+) demo_mutant=(\d+) check_exit=(\d+)', out)
if not m:
    print('NOT CONFIRMED (no summary)'); sys.exit(1)
tests, d0, d1, ce = m.group(1), int(m.group(2)), int(m.group(3)), int(m.group(4))
confirmed = tests.startswith('234 passed') and d0 == 0 and d1 != 0
if not confirmed:
    print('NOT CONFIRMED'); sys.exit(1)
dst = '/verif/seeded/%s%s' % (prop, var)
os.makedirs(dst, exist_ok=True)
shutil.copy(src + '/patch.diff', dst + '/patch.diff')
shutil.copy(src + '/demo.py', dst + '/demo.py')
meta = json.load(open(src + '/meta.json'))
head = subprocess.check_output(['git', '-C', '/repo', 'log', '-1', '--format=%h']).decode().strip()
mech = re.search(r'violation mechanisms observed: (\{.*\})', out)
meta_out = {
    'property': prop,
    'summary': meta.get('summary'),
    'needs_to_manifest': meta.get('needs_to_manifest'),
    'author': 'independent sub-agent given only the property text and a scratch worktree',
    'author_ran': meta.get('ran'),
    'confirmed_by_me': {
        'repo_head': head,
        'how': 'tools/seedcheck.sh %s <seed> %s: scratch git worktree of /repo HEAD outside /repo and /verif, git apply patch.diff, '
               'repo test-suite, demo.py on pristine and on changed tree, then VP_REPO=<scratch> ./check %s %s' % (prop, tier, prop, tier),
        'repo_tests_with_change': tests,
        'demo_exit_pristine': d0,
        'demo_exit_with_change': d1,
    },
    'check_result': {'tier': tier, 'exit': ce, 'detected': ce == 1,
                     'mechanisms': json.loads(mech.group(1)) if mech else None},
}
json.dump(meta_out, open(dst + '/meta.json', 'w'), indent=1)
print('KEPT', dst, 'detected=%s' % (ce == 1))
