import random, collections, io, tarfile, gzip, bz2, lzma, hashlib, itertools
from debian.debfile import DebFile, DebError
from debian.deb822 import Deb822
rnd=random.Random(4)
def mkar(members):
    out=io.BytesIO(); out.write(b'!<arch>\n')
    for name,data in members:
        hdr=('%-16s%-12d%-6d%-6d%-8s%-10d`\n'%(name,0,0,0,'100644',len(data))).encode()
        assert len(hdr)==60,len(hdr)
        out.write(hdr); out.write(data)
        if len(data)%2: out.write(b'\n')
    return out.getvalue()
def mktar(files):
    b=io.BytesIO()
    with tarfile.open(fileobj=b,mode='w',format=tarfile.GNU_FORMAT) as t:
        ti=tarfile.TarInfo('./'); ti.type=tarfile.DIRTYPE; t.addfile(ti)
        for n,d in files:
            ti=tarfile.TarInfo('./'+n); ti.size=len(d); t.addfile(ti,io.BytesIO(d))
    return b.getvalue()
comp={'':lambda b:b,'.gz':gzip.compress,'.bz2':bz2.compress,'.xz':lzma.compress,'.lzma':lambda b:lzma.compress(b,format=lzma.FORMAT_ALONE)}
bad=collections.Counter(); ex={}
def fname(): return rnd.choice(['usr/bin/a','etc/x y','a','usr/share/doc/p/READ ME','b.txt','d/e/f'])
for it in range(600):
    ctrl=Deb822(); ctrl['Package']='p%d'%it; ctrl['Version']='1.0-1'; ctrl['Description']='short\n long line\n .\n more'
    scripts={s:('#!/bin/sh\necho %s\n'%s).encode() for s in ['preinst','postinst','prerm','postrm','config'] if rnd.random()<.5}
    files={}
    for _ in range(rnd.randint(0,5)):
        files[fname()]=bytes(rnd.randrange(256) for _ in range(rnd.randint(0,50)))
    md5='\n'.join('%s  %s'%(hashlib.md5(d).hexdigest(),n) for n,d in files.items())
    md5=(md5+'\n').encode() if files else b''
    cfiles=[('control',ctrl.dump().encode())]+list(scripts.items())+[('md5sums',md5)]
    cc=rnd.choice(list(comp)); dc=rnd.choice(list(comp))
    members=[('debian-binary',b'2.0\n'),('control.tar'+cc,comp[cc](mktar(cfiles))),('data.tar'+dc,comp[dc](mktar(list(files.items()))))]
    raw=mkar(members)
    try:
        deb=DebFile(fileobj=io.BytesIO(raw))
        if dict(deb.debcontrol())!=dict(ctrl): bad['control']+=1; ex.setdefault('control',(dict(deb.debcontrol()),dict(ctrl)))
        if deb.scripts()!=scripts: bad['scripts']+=1
        m=deb.md5sums(encoding='utf-8')
        if m!={n:hashlib.md5(d).hexdigest() for n,d in files.items()}: bad['md5']+=1; ex.setdefault('md5',(m,files))
        for n,d in files.items():
            for sp in (n,'./'+n,'/'+n):
                if not deb.data.has_file(sp): bad['has_file']+=1
                if deb.data.get_content(sp)!=d: bad['content']+=1
        for sp in ('nope','./nope','/nope'):
            if deb.data.has_file(sp): bad['has_file_neg']+=1
        if deb.version!=b'2.0': bad['version']+=1
    except Exception as e:
        bad['exc:'+type(e).__name__+':'+cc+dc]+=1; ex.setdefault('exc:'+cc+dc,repr(e))
# defective sets
parts={'debian-binary':b'2.0\n'}
for c in comp: parts['control.tar'+c]=comp[c](mktar([('control',b'Package: x\n')])); parts['data.tar'+c]=comp[c](mktar([]))
names=list(parts)
n=0
for k in range(0,5):
    for sub in itertools.permutations(names,k):
        if k>=4 and rnd.random()<.9: continue
        n+=1
        ok=('debian-binary' in sub and sum(s.startswith('control.tar') for s in sub)==1 and sum(s.startswith('data.tar') for s in sub)==1)
        try:
            DebFile(fileobj=io.BytesIO(mkar([(s,parts[s]) for s in sub]))); acc=True
        except DebError: acc=False
        except Exception as e: bad['defect-exc:'+type(e).__name__]+=1; ex.setdefault('defect-exc',(sub,repr(e))); continue
        if acc!=ok: bad['defect-accept' if acc else 'defect-reject']+=1; ex.setdefault('defect',(sub,acc,ok))
print(n,bad)
for k,v in list(ex.items())[:10]: print('=====',k); print(str(v)[:600])
