import itertools, re
from debian.debian_support import Version
# spec oracle (strict policy)
UP=set('ABCDEFGHIJKLMNOPQRSTUVWXYZabcdefghijklmnopqrstuvwxyz0123456789.+~')
def valid(s):
    if ':' in s:
        e,rest=s.split(':',1)
        if not e or not all(c in '0123456789' for c in e): return False
        has_epoch=True
    else:
        rest=s; has_epoch=False
    if '-' in rest:
        u,r=rest.rsplit('-',1)
        if not r or not all(c in UP for c in r): return False
        allowed=UP|{'-'}
    else:
        u=rest; allowed=set(UP)
    if has_epoch: allowed=allowed|{':'}
    if not u or not all(c in allowed for c in u): return False
    return True
alpha=['1','0','a','.','+','~','-',':',' ','\n','_','é','٣','²']
acc_bad=[];rej_bad=[]
for k in range(0,5):
    for t in itertools.product(alpha,repeat=k):
        s=''.join(t)
        try: v=Version(s); ok=True
        except ValueError: ok=False
        if ok and not valid(s): acc_bad.append(s)
        if not ok and valid(s): rej_bad.append(s)
        if ok:
            assert str(v)==s
            re_=( (v.epoch+':') if v.epoch is not None else '')+v.upstream_version+(('-'+v.debian_revision) if v.debian_revision else '')
            if re_!=s: print('RECOMP',repr(s),re_)
print('accepted but invalid',len(acc_bad)); 
import collections
def cls(s):
    if s.endswith('\n'): return 'trailing-newline'
    if any(c in s for c in '٣²'): return 'non-ascii-digit'
    if s.endswith('-'): return 'trailing-hyphen'
    if s=='' : return 'empty'
    return 'other'
c=collections.Counter(cls(s) for s in acc_bad); print(c)
print([s for s in acc_bad if cls(s)=='other'][:20])
print('rejected but valid',len(rej_bad), rej_bad[:20])
