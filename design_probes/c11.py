import random, collections
from debian._deb822_repro import parse_deb822_file, LIST_SPACE_SEPARATED_INTERPRETATION as SP, LIST_COMMA_SEPARATED_INTERPRETATION as CM
rnd=random.Random(5)
bad=collections.Counter(); ex={}
def words(comma):
    if comma: return rnd.choice(['foo','bar (>= 1.0)','baz | qux','a','libx [amd64]','${misc:Depends}'])
    return rnd.choice(['foo','bar','amd64','any','a','linux-any','#x'])
def gen_field(comma):
    # layout: sequence of lines; first line after 'F:'; continuation lines start with ws; comment lines allowed between
    nvals=rnd.randint(1,6)
    vals=[words(comma) for _ in range(nvals)]
    lines=[]; cur=''; expected=[]
    first=True
    out='F:'
    line=rnd.choice([' ','','  ','\t'])
    i=0
    started=False
    while i<len(vals):
        v=vals[i]
        if comma:
            piece=v+rnd.choice([',',' ,',', ',' , ']) if (i<len(vals)-1 or rnd.random()<.4) else v
            if rnd.random()<.1: piece=','+piece  # leading / double comma
        else:
            piece=v+rnd.choice([' ','  ','\t','']) 
            if not piece[-1].isspace() and i<len(vals)-1: piece+=' '
        line+=piece; i+=1
        if rnd.random()<.4 or i==len(vals):
            out+=line.rstrip('\n')+'\n'
            if i<len(vals):
                if rnd.random()<.3: out+='# a comment, with, commas and spaces\n'
                line=rnd.choice([' ','\t','   '])
                if not comma and False: pass
    return out, vals
def oracle(text, comma):
    body=text.split(':',1)[1]
    ls=[l for l in body.split('\n') if not l.startswith('#')]
    joined='\n'.join(ls)
    if comma: items=[x.strip() for x in joined.split(',')]
    else: items=joined.split()
    return [x for x in items if x]
for it in range(30000):
    comma=rnd.random()<.5
    ftxt,vals=gen_field(comma)
    pre='Package: p\n# fc\nOther: keep  me \n'; post='Tail: t\n more\n'
    final_nl=rnd.random()<.7
    txt=pre+ftxt+post
    if rnd.random()<.3: txt=pre+post+ftxt; 
    if not final_nl: txt=txt[:-1]
    try:
        f=parse_deb822_file(txt.splitlines(True))
    except Exception as e:
        bad['parse-exc']+=1; ex.setdefault('parse-exc',(txt,repr(e))); continue
    p=next(iter(f)); interp=CM if comma else SP
    view=p.as_interpreted_dict_view(interp)
    exp=oracle(ftxt if final_nl or not txt.endswith(ftxt[:-1]) else ftxt, comma)
    try:
        with view['F'] as l:
            got=list(l)
    except Exception as e:
        bad['read-exc']+=1; ex.setdefault('read-exc',(txt,repr(e))); continue
    if got!=exp: bad['read']+=1; ex.setdefault('read:'+str(comma),(ftxt,got,exp))
    if f.dump()!=txt: bad['noop-changed']+=1; ex.setdefault('noop-changed',(txt,f.dump()))
    # edits
    model=list(exp); hist=[]
    try:
        with view['F'] as l:
            for _ in range(rnd.randint(1,3)):
                op=rnd.choice(['append','remove','replace','ref-set','ref-remove'])
                if op=='append': v=words(comma) if comma or True else None; v=v if v!='#x' else 'hx'; l.append(v); model.append(v); hist.append((op,v))
                elif op=='remove' and model:
                    v=rnd.choice(model)
                    if len(model)==1: continue
                    l.remove(v); model.remove(v); hist.append((op,v))
                elif op=='replace' and model:
                    v=rnd.choice(model); n='NEW'; l.replace(v,n); model[model.index(v)]=n; hist.append((op,v))
                elif op=='ref-set' and model:
                    refs=list(l.iter_value_references()); k=rnd.randrange(len(refs)); refs[k].value='REF'; model[k]='REF'; hist.append((op,k))
                elif op=='ref-remove' and len(model)>1:
                    refs=list(l.iter_value_references()); k=rnd.randrange(len(refs)); refs[k].remove(); model.pop(k); hist.append((op,k))
    except Exception as e:
        bad['edit-exc:'+type(e).__name__]+=1; ex.setdefault('edit-exc:'+type(e).__name__,(txt,hist,repr(e))); continue
    out=f.dump()
    try:
        f2=parse_deb822_file(out.splitlines(True))
        p2=next(iter(f2))
        got2=list(p2.as_interpreted_dict_view(interp)['F'])
    except Exception as e:
        bad['reparse-exc']+=1; ex.setdefault('reparse-exc',(txt,hist,out,repr(e))); continue
    if got2!=model: bad['edit-result']+=1; ex.setdefault('edit-result:'+str(comma),(txt,hist,out,got2,model))
    # other fields byte-identical
    for k in ('Package','Other','Tail'):
        a=p.get_kvpair_element(k).convert_to_text(); 
        b=p2.get_kvpair_element(k).convert_to_text()
        orig={'Package':'Package: p\n','Other':'# fc\nOther: keep  me \n','Tail':'Tail: t\n more\n'}[k]
        if b!=orig and b!=orig[:-1] : bad['other-changed']+=1; ex.setdefault('other-changed',(txt,hist,out,k,b))
    if len(list(f2))!=1: bad['split']+=1
print(bad)
for k,v in ex.items(): print('====',k); print(v)
