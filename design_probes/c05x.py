# multi-op C05 histories with full value/order model; run against repaired scratch copy
import random, collections
from debian._deb822_repro import parse_deb822_file
rnd=random.Random(21)
NAMES=['Package','Depends','Description','X-Foo','a','Section','Arch','Zed']
uid=[0]
def gen_field(name):
    uid[0]+=1; u=uid[0]
    comments=['# c%d\n'%u for _ in range(rnd.choice([0,0,0,1,2]))]
    sp=rnd.choice([' ','','  ','\t'])
    first=rnd.choice(['v%d'%u,'val ue%d'%u,'a%d, b,'%u,''])
    lines=[name+':'+sp+first+rnd.choice(['','',' ','\t'])+'\n']
    ncont=rnd.choice([0,0,1,2,3]) if first else rnd.choice([1,2])
    for _ in range(ncont):
        if rnd.random()<.3: lines.append('# in%d\n'%u)
        lines.append(rnd.choice([' ','\t','   '])+rnd.choice(['cont%d'%u,'more, stuff%d'%u,'.','x: y%d'%u])+rnd.choice(['',' '])+'\n')
    return {'name':name,'comments':comments,'lines':lines}
def value_of(lines):
    ls=[l for l in lines if not l.startswith('#')]
    first=ls[0].split(':',1)[1].strip()
    if len(ls)==1: return first
    return (first+'\n'+''.join(ls[1:]))[:-1]
bad=collections.Counter(); ex={}
for it in range(30000):
    paras=[]
    for _ in range(rnd.randint(1,3)):
        paras.append([gen_field(n) for n in rnd.sample(NAMES,rnd.randint(1,5))])
    seps=[rnd.choice(['\n','\n\n',' \n','\n# free\n\n','\t\n']) for _ in paras]
    lead=rnd.choice(['','','\n','# lead\n\n'])
    def render(paras,final_nl=True):
        s=lead
        for i,p in enumerate(paras):
            for f in p: s+=''.join(f['comments'])+''.join(f['lines'])
            if i<len(paras)-1: s+=seps[i]
        return s
    txt=render(paras); final_nl=rnd.random()<.6
    if not final_nl: txt=txt[:-1]
    f=parse_deb822_file(txt.splitlines(True)); ps=list(f)
    model=[[(fl['name'],value_of(fl['lines'])) for fl in p] for p in paras]
    hist=[]
    cur=txt
    try:
        for step in range(rnd.randint(1,6)):
            pi=rnd.randrange(len(model)); m=model[pi]; p=ps[pi]
            op=rnd.choice(['set','set','add','del'])
            newv=rnd.choice(['new%d'%step,' pad%d '%step,'multi%d\n line2\n\tline3'%step,'m%d\n# comment inside\n l2'%step,''])
            if op=='set':
                i=rnd.randrange(len(m)); nm=m[i][0]
                key=rnd.choice([nm,nm.upper(),nm.lower()])
                if newv=='' : continue
                p[key]=newv; hist.append((pi,'set',key,newv))
                ev=newv
                # expected read-back: first line stripped; comment lines removed
                ls=ev.split('\n'); ev='\n'.join([ls[0].strip()]+[l for l in ls[1:] if not l.startswith('#')])
                m[i]=(nm,ev)
            elif op=='add':
                nm='New%d'%step
                if newv=='': continue
                p[nm]=newv; hist.append((pi,'add',nm,newv))
                ls=newv.split('\n'); ev='\n'.join([ls[0].strip()]+[l for l in ls[1:] if not l.startswith('#')])
                m.append((nm,ev))
            else:
                if len(m)<2: continue
                i=rnd.randrange(len(m)); nm=m[i][0]; key=rnd.choice([nm,nm.upper()])
                del p[key]; hist.append((pi,'del',key)); m.pop(i)
            out=f.dump()
            f2=parse_deb822_file(out.splitlines(True))
            got=[[(k,q[k]) for k in q] for q in f2]
            if got!=model:
                bad['model:'+op]+=1; ex.setdefault('model:'+op,(txt,hist,out,got,model)); break
            # live object view agrees too
            live=[[(k,q[k]) for k in q] for q in ps]
            if live!=model: bad['live:'+op]+=1; ex.setdefault('live:'+op,(txt,hist,out,live,model)); break
            # separators & free comments survive
            for s in ('# free\n','# lead\n'):
                if txt.count(s)!=out.count(s): bad['freecomment']+=1; ex.setdefault('freecomment',(txt,hist,out)); break
    except Exception as e:
        bad['exc:'+type(e).__name__]+=1; ex.setdefault('exc:'+type(e).__name__,(txt,hist,repr(e)))
print(bad)
for k,v in ex.items(): print('====',k); print(str(v)[:1500])
