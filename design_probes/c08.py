import itertools, collections
from debian.deb822 import Deb822
alpha=['a',':','#',' ','\t','\r','\n','-','.','B: x']
res=collections.Counter(); bad=[]
def reparse(txt, strict):
    return list(Deb822.iter_paragraphs(txt, strict=strict))
n=0
for k in range(0,6):
    for t in itertools.product(alpha,repeat=k):
        v=''.join(t); n+=1
        for base in ([('A','1'),('F',None),('Z','9')], [('F',None)]):
            d=Deb822()
            for kk,vv in base:
                if vv is not None: d[kk]=vv
            if len(base)>1: d['F']='old'
            before=(list(d.keys()), d.dump())
            try:
                d['F']=v; acc=True
            except ValueError:
                acc=False
            if not acc:
                if (list(d.keys()), d.dump())!=before: bad.append(('rejected-but-changed',v))
                # should it have been rejected?
                continue
            txt=d.dump()
            keys=list(d.keys())
            cont_blank = any(not l.strip() for l in v.split('\n')[1:])
            for strict in ({'whitespace-separates-paragraphs':False}, None):
                if strict is None and cont_blank: continue
                ps=reparse(txt, strict)
                if len(ps)!=1 or list(ps[0].keys())!=keys:
                    bad.append(('inject', repr(v), strict, [list(p.keys()) for p in ps])); 
print(n, len(bad))
c=collections.Counter(b[0] for b in bad); print(c)
for b in bad[:40]: print(b)
