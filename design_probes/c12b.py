import random, collections, re
from debian import deb822
# candidate fix monkeypatch
def _ffl_p(self):
    out={}
    for key in self._multivalued_fields:
        if key not in self: continue
        if hasattr(self[key],'keys'): continue
        out[key]={"size":self._get_size_field_length(key)}
    return out
deb822.PdiffIndex._fixed_field_lengths=property(_ffl_p)
def _ffl_r(self):
    out={}
    for key in self._multivalued_fields:
        if key not in self: continue
        out[key]={"size":self._get_size_field_length(key)}
    return out
deb822.Release._fixed_field_lengths=property(_ffl_r)
rnd=random.Random(3)
classes={'Dsc':deb822.Dsc,'Changes':deb822.Changes,'BuildInfo':deb822.BuildInfo,'PdiffIndex':deb822.PdiffIndex,'Release':deb822.Release}
bad=collections.Counter(); ex={}
def tok(): return ''.join(rnd.choice('ab01/._-+~:') for _ in range(rnd.randint(1,8)))
for name,cls in classes.items():
    mv=cls._multivalued_fields
    fields=sorted(mv)
    for it in range(500):
        present=[f for f in fields if rnd.random()<.5] or [fields[0]]
        for behavior in (['apt-ftparchive','dak'] if name=='Release' else [None]):
            obj=cls()
            if behavior: obj.size_field_behavior=behavior
            obj['Origin']='x'
            recs={}
            for f in present:
                n=rnd.randint(1,3)
                rs=[{sub:(str(rnd.randint(0,10**rnd.randint(1,18))) if sub=='size' else tok()) for sub in mv[f]} for _ in range(n)]
                recs[f]=rs
                obj[f]=rs
            try: txt=obj.dump()
            except Exception as e:
                bad[name+':dump-built:'+type(e).__name__]+=1; ex.setdefault(name+':dump-built',(present,repr(e))); continue
            o2=cls(txt)
            if behavior: o2.size_field_behavior=behavior
            for f in present:
                got=o2[f]
                if hasattr(got,'keys'): got=[got]
                g=[dict(x) for x in got]
                if g!=recs[f]:
                    bad[name+':records']+=1; ex.setdefault(name+':records',(f,recs[f],g,txt))
            try: t2=o2.dump()
            except Exception as e:
                bad[name+':dump-parsed:'+type(e).__name__]+=1; ex.setdefault(name+':dump-parsed',(present,repr(e))); continue
            if t2!=txt: bad[name+':redump-differs']+=1; ex.setdefault(name+':redump',(txt,t2))
            if name in('Release','PdiffIndex'):
                o3=cls(txt)
                for f in present:
                    # find lines of field f in txt
                    m=re.search(r'(?mi)^%s:\n((?: .*\n?)+)'%re.escape(f), txt)
                    lines=m.group(1).rstrip('\n').split('\n')
                    sizes=[r['size'] for r in recs[f]]
                    w=16 if (name=='Release' and behavior=='apt-ftparchive') else max(len(s) for s in sizes)
                    for l,r in zip(lines,recs[f]):
                        first=r[mv[f][0]]
                        exp=' '+first+' '+r['size'].rjust(w)
                        if not l.startswith(exp): bad[name+':align']+=1; ex.setdefault(name+':align',(l,exp,behavior))
print(bad)
for k,v in list(ex.items())[:8]: print(k,str(v)[:800])
