import random, collections, itertools
from debian import deb822
rnd=random.Random(3)
classes={'Dsc':deb822.Dsc,'Changes':deb822.Changes,'BuildInfo':deb822.BuildInfo,'PdiffIndex':deb822.PdiffIndex,'Release':deb822.Release}
bad=collections.Counter(); ex={}
def tok(): return ''.join(rnd.choice('ab01/._-+~:') for _ in range(rnd.randint(1,8)))
for name,cls in classes.items():
    mv=cls._multivalued_fields
    fields=sorted(mv)
    for it in range(300):
        present=[f for f in fields if rnd.random()<.5] or [fields[0]]
        for behavior in (['apt-ftparchive','dak'] if name=='Release' else [None]):
            obj=cls()
            if behavior: obj.size_field_behavior=behavior
            obj['Origin']='x'
            recs={}
            for f in present:
                n=rnd.randint(1,3)
                rs=[{sub:(str(rnd.randint(0,10**rnd.randint(1,12))) if sub=='size' else tok()) for sub in mv[f]} for _ in range(n)]
                recs[f]=rs
                obj[f]=rs
            try:
                txt=obj.dump()
            except Exception as e:
                bad[name+':dump-built:'+type(e).__name__]+=1; ex.setdefault(name+':dump-built',(present,repr(e))); continue
            o2=cls(txt)
            if behavior: o2.size_field_behavior=behavior
            for f in present:
                got=o2[f]
                if hasattr(got,'keys'): got=[got]
                g=[dict(x) for x in got]
                if g!=recs[f]:
                    bad[name+':records']+=1; ex.setdefault(name+':records',(f,recs[f],g,txt))
            try:
                t2=o2.dump()
            except Exception as e:
                bad[name+':dump-parsed:'+type(e).__name__]+=1; ex.setdefault(name+':dump-parsed',(present,repr(e))); continue
            # alignment
            if name in('Release','PdiffIndex'):
                for f in present:
                    lines=[l for l in txt.split('\n')]
                    
print(bad)
for k,v in list(ex.items())[:8]: print(k,str(v)[:600])
