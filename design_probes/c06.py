import arfix
import random, collections, io, os, tempfile
from debian.arfile import ArFile
rnd=random.Random(4)
def mkar(members):
    out=io.BytesIO(); out.write(b'!<arch>\n')
    for name,data,mt,uid,gid in members:
        hdr=('%-16s%-12d%-6d%-6d%-8s%-10d`\n'%(name+'/',mt,uid,gid,'100644',len(data))).encode()
        assert len(hdr)==60
        out.write(hdr); out.write(data)
        if len(data)%2: out.write(b'\n')
    return out.getvalue()
def data():
    k=rnd.random()
    n=rnd.choice([0,1,2,3,5,8,13,40])
    b=bytes(rnd.choice(b'ab\n\n\x00\xff`!<') for _ in range(n))
    if k<.3 and b: b=b.rstrip(b'\n')+b'x'   # no final newline
    return b
bad=collections.Counter(); ex={}
for it in range(5000):
    nm=rnd.randint(0,4)
    names=[rnd.choice(['a','b','c.txt','debian-binary','a']) for _ in range(nm)]
    mem=[(n,data(),rnd.randint(0,2**31),rnd.randint(0,65535),rnd.randint(0,65535)) for n in names]
    raw=mkar(mem)
    for mode in ('fileobj','filename'):
        if mode=='fileobj':
            ar=ArFile(fileobj=io.BytesIO(raw))
        else:
            fd,path=tempfile.mkstemp(); os.write(fd,raw); os.close(fd)
            ar=ArFile(filename=path)
        try:
            if ar.getnames()!=names: bad['names']+=1; ex.setdefault('names',(names,ar.getnames()))
            ms=ar.getmembers()
            for m,(n,d,mt,u,g) in zip(ms,mem):
                if (m.name,m.size,m.mtime,m.owner,m.group)!=(n,len(d),mt,u,g): bad['meta']+=1
            for n in set(names):
                last=[i for i,x in enumerate(names) if x==n][-1]
                if ar.getmember(n) is not ms[last]: bad['getmember-last']+=1
            refs=[io.BytesIO(d) for (_,d,_,_,_) in mem]
            hist=[]
            for step in range(rnd.randint(0,25)):
                if not ms: break
                i=rnd.randrange(len(ms)); m=ms[i]; r=refs[i]
                op=rnd.choice(['read','readn','readline','readlinen','readlines','seek0','seek1','seek2','tell'])
                try:
                    if op=='read': a=m.read(); b=r.read()
                    elif op=='readn': k=rnd.randint(1,10); a=m.read(k); b=r.read(k)
                    elif op=='readline': a=m.readline(); b=r.readline()
                    elif op=='readlinen': k=rnd.randint(1,10); a=m.readline(k); b=r.readline(k)
                    elif op=='readlines': a=m.readlines(); b=r.readlines()
                    elif op=='seek0': k=rnd.randint(0,len(mem[i][1])+3); m.seek(k); r.seek(k); a=b=None
                    elif op=='seek1':
                        k=rnd.randint(-3,5)
                        if r.tell()+k<0: continue
                        m.seek(k,1); r.seek(k,1); a=b=None
                    elif op=='seek2':
                        k=rnd.randint(-5,3)
                        if len(mem[i][1])+k<0: continue
                        m.seek(k,2); r.seek(k,2); a=b=None
                    elif op=='tell': a=m.tell(); b=r.tell()
                except Exception as e:
                    bad[op+':exc:'+type(e).__name__]+=1; ex.setdefault(op+':exc',(mem,hist,repr(e))); break
                hist.append((i,op,locals().get('k')))
                if a!=b:
                    bad[mode+':'+op]+=1; ex.setdefault(mode+':'+op,(mem,hist,a,b)); break
        finally:
            for m in ar.getmembers(): m.close()
            if mode=='filename': os.unlink(path)
print(bad)
for k,v in list(ex.items())[:10]:
    print('=====',k); print(str(v)[:900])
