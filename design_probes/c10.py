import random, collections
from debian._deb822_repro import parse_deb822_file
from debian._deb822_repro.parsing import Deb822ParagraphElement
rnd=random.Random(4)
NAMES=['A','B','C','D']
def field(name,uid):
    com=''.join('# c%d\n'%uid for _ in range(rnd.choice([0,0,1])))
    t=com+name+': v%d\n'%uid
    if rnd.random()<.3: t+=' cont%d\n'%uid
    return t
def gen_para(dups,uid):
    n=rnd.randint(1,5)
    if dups: names=[rnd.choice(NAMES) for _ in range(n)]
    else: names=rnd.sample(NAMES,min(n,4))
    return [(nm,field(nm,uid+i)) for i,nm in enumerate(names)]
def render(paras,seps,final_nl):
    out=[]
    for i,p in enumerate(paras):
        out.append(''.join(t for _,t in p))
        if i<len(paras)-1: out.append(seps[i])
    s=''.join(out)
    if not final_nl: s=s[:-1]
    return s
bad=collections.Counter(); ex={}
def occ(model,name):
    return [i for i,(n,_) in enumerate(model) if n.lower()==name.lower()]
for it in range(40000):
    dups=rnd.random()<.6
    paras=[gen_para(dups,100*k) for k in range(rnd.randint(1,3))]
    seps=[rnd.choice(['\n','\n\n','\n# free\n\n']) for _ in paras]
    final_nl=rnd.random()<.6
    txt=render(paras,seps,final_nl)
    f=parse_deb822_file(txt.splitlines(True),accept_files_with_duplicated_fields=True)
    assert f.dump()==txt
    ps=list(f)
    model=[list(p) for p in paras]
    hist=[]
    touched_last_nl=False
    ok=True
    for step in range(rnd.randint(1,5)):
        pi=rnd.randrange(len(model)); m=model[pi]; p=ps[pi]
        if not m: break
        op=rnd.choice(['first','last','before','after','sort','set1','setall','del1','delall'])
        def pick():
            nm=rnd.choice(m)[0]; o=occ(m,nm)
            if rnd.random()<.5: return nm,o
            i=rnd.randrange(len(o)); return (nm,i),[o[i]]
        try:
            if op in('first','last'):
                key,idxs=pick(); hist.append((pi,op,key))
                getattr(p,'order_'+op)(key)
                moved=[m[i] for i in idxs]; rest=[e for i,e in enumerate(m) if i not in idxs]
                model[pi]=moved+rest if op=='first' else rest+moved
            elif op in('before','after'):
                key,idxs=pick(); rkey,ridxs=pick(); hist.append((pi,op,key,rkey))
                ref=ridxs[0] if op=='before' else ridxs[-1]
                try:
                    getattr(p,'order_'+op)(key,rkey); got=None
                except ValueError: got='ValueError'
                if ref in idxs:
                    if got!='ValueError': bad['self-ref-noerror']+=1; ex.setdefault('self-ref-noerror',(txt,hist))
                    # must be unchanged
                else:
                    if got: bad['unexpected-VE']+=1; ex.setdefault('unexpected-VE',(txt,hist)); ok=False; break
                    refe=m[ref]; moved=[m[i] for i in idxs]; rest=[e for i,e in enumerate(m) if i not in idxs]
                    j=[k for k,e in enumerate(rest) if e is refe][0]
                    model[pi]=rest[:j]+moved+rest[j:] if op=='before' else rest[:j+1]+moved+rest[j+1:]
            elif op=='sort':
                hist.append((pi,op)); p.sort_fields()
                model[pi]=sorted(m,key=lambda e:e[0].lower())
            elif op in('set1','setall'):
                key,idxs=pick()
                if op=='setall': key=key if isinstance(key,str) else key[0]; idxs=occ(m,key)
                elif isinstance(key,str): key=(key,0); idxs=idxs[:1]
                hist.append((pi,op,key))
                p[key]='NEW%d'%step
                nm=m[idxs[0]][0]
                # expected text: comments of first preserved + 'Name: NEW\n'
                oldt=m[idxs[0]][1]
                com=''.join(l for l in oldt.splitlines(True) if l.startswith('#') and oldt.index(l)<oldt.index(nm+':'))
                newe=(nm,com+nm+': NEW%d\n'%step)
                model[pi]=[newe if i==idxs[0] else e for i,e in enumerate(m) if i==idxs[0] or i not in idxs]
            else:
                key,idxs=pick()
                if op=='delall': key=key if isinstance(key,str) else key[0]; idxs=occ(m,key)
                elif isinstance(key,str): key=(key,0); idxs=idxs[:1]
                if len(m)-len(idxs)<1: continue
                hist.append((pi,op,key))
                del p[key]
                model[pi]=[e for i,e in enumerate(m) if i not in idxs]
        except Exception as e:
            bad['exc:'+op+':'+type(e).__name__]+=1; ex.setdefault('exc:'+op+':'+type(e).__name__,(txt,hist,repr(e))); ok=False; break
        # compare
        out=f.dump()
        exp=render(model,seps,True)
        # allow final newline supply
        if out!=exp and not (not final_nl and out==exp[:-1]):
            # also allow case that model last field lacks newline since original final field moved: compute variants
            # original last field text (without nl) may have moved; build exp with that entry lacking nl
            alt=None
            if not final_nl:
                lastp=paras[-1]; orig_last=lastp[-1]
                m2=[[ (n,(t[:-1] if e is orig_last else t)) for e in mp for (n,t) in [e]] for mp in model]
                alt=render(m2,seps,True)
            if out!=alt:
                bad['order/text:'+op]+=1; ex.setdefault('order/text:'+op,(txt,hist,out,exp)); ok=False; break
            else:
                bad['glued-missing-newline:'+op]+=1; ex.setdefault('glued:'+op,(txt,hist,out)); ok=False; break
        # index semantics
        m=model[pi]
        for nm in set(n for n,_ in m):
            o=occ(m,nm)
            for i,idx in enumerate(o):
                try:
                    kv=p.get_kvpair_element((nm,i))
                    t=kv.convert_to_text()
                except Exception as e:
                    bad['idx-exc']+=1; ex.setdefault('idx-exc',(txt,hist,nm,i,repr(e))); ok=False; break
                if t.rstrip('\n')!=m[idx][1].rstrip('\n'):
                    bad['idx-sem:'+hist[-1][1]]+=1; ex.setdefault('idx-sem:'+hist[-1][1],(txt,hist,nm,i,t,m[idx][1])); ok=False; break
            if not ok: break
        if not ok: break
print(bad)
for k,v in ex.items(): print('====',k); print(v)
