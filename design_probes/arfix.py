from debian import arfile
def readline(self, size=None):
    P='_ArMember__'
    if getattr(self,P+'fp') is None:
        if getattr(self,P+'fname') is None: raise ValueError
        setattr(self,P+'fp',open(getattr(self,P+'fname'),'rb'))
    fp=getattr(self,P+'fp'); cur=getattr(self,P+'cur'); end=getattr(self,P+'end'); off=getattr(self,P+'offset')
    if cur>=end or cur<off: return b''
    fp.seek(cur)
    remaining=end-cur
    if size is None or size<0 or size>remaining: size=remaining
    buf=fp.readline(size)
    setattr(self,P+'cur',fp.tell())
    return buf
arfile.ArMember.readline=readline
