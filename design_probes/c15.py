import random, collections, warnings
from debian.changelog import Changelog, ChangelogParseError, ChangelogCreateError
exec(open('gen04.py').read())
rnd=random.Random(11)
junk=['garbage line','  ',' -- ',' --',' -- A <b>  bad date','Local variables:',';; Local variables:','vim: set ts=2','$Id: x $','# comment','/* c */',
 'Mon Jan  1 12:00:00 2001  A <b@c>','pkg (1.0)','Changes from version 1 to 2:','Old Changelog:','foo-1.0:','\tTabbed',' one-space','pkg (1.0) unstable; urgency','pkg (1.0) unstable; urgency=low, urgency=high','pkg (1.0) unstable; foo bar',' -- A <b>   Mon, 1 Jan 2001 00:00:00 +0000',' -- A <b> Mon, 1 Jan 2001 00:00:00 +0000','é']
bad=collections.Counter(); ex={}
def blocksig(c):
    return [(b.package,str(b._raw_version),b.distributions,b.urgency,b.urgency_comment,tuple(b.changes()),b.author,b.date,tuple(sorted(b.other_pairs.items()))) for b in c]
for it in range(30000):
    lines=[]
    nb=rnd.randint(1,3)
    for i in range(nb):
        lines+=block(); lines+=['']
    for _ in range(rnd.randint(0,3)):
        op=rnd.choice(['ins','del','dup'])
        if not lines: break
        i=rnd.randrange(len(lines)+ (1 if op=='ins' else 0))
        if op=='ins': lines.insert(i,rnd.choice(junk))
        elif op=='del': lines.pop(i)
        else: lines.insert(i,lines[i])
    txt='\n'.join(lines)+('\n' if lines else '')
    for aea in (False,True):
        try:
            with warnings.catch_warnings(record=True) as w:
                warnings.simplefilter('always')
                c=Changelog(txt,allow_empty_author=aea)
            warned=bool(w)
        except Exception as e:
            bad['lenient-raise:'+type(e).__name__]+=1; ex.setdefault('lenient-raise:'+type(e).__name__,(txt,repr(e))); continue
        try:
            with warnings.catch_warnings(record=True) as w2:
                warnings.simplefilter('always')
                Changelog(txt,strict=True,allow_empty_author=aea); raised=False
        except ChangelogParseError: raised=True
        except Exception as e:
            bad['strict-other:'+type(e).__name__]+=1; ex.setdefault('strict-other',(txt,repr(e))); continue
        if raised!=warned: bad['strict!=warn']+=1; ex.setdefault('strict!=warn',(txt,aea,raised,warned))
        # normal form
        try: s=c._format(allow_missing_author=aea) if False else str(c)
        except ChangelogCreateError: bad['unformattable']+=0; continue
        except Exception as e:
            bad['format-other:'+type(e).__name__]+=1; ex.setdefault('format-other',(txt,repr(e))); continue
        try:
            with warnings.catch_warnings(record=True):
                warnings.simplefilter('always')
                c2=Changelog(s,allow_empty_author=aea)
            s2=str(c2)
        except Exception as e:
            bad['reparse-exc:'+type(e).__name__]+=1; ex.setdefault('reparse-exc',(txt,s,repr(e))); continue
        if s2!=s: bad['not-fixpoint']+=1; ex.setdefault('not-fixpoint',(txt,s,s2))
        elif blocksig(c2)!=blocksig(c): bad['blocks-differ']+=1; ex.setdefault('blocks-differ',(txt,s,blocksig(c),blocksig(c2)))
print(bad)
for k,v in ex.items():
    print('=====',k)
    for x in v: print(x); print('--')
