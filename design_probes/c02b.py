import random, io, collections
from debian.deb822 import Deb822, Dsc, Changes
rnd=random.Random(7)
names=['Package','X-a','foo','A','b9','Foo_Bar','x!y','-----BEGIN']
valchars=list('ab:# \t-.,=é漢(){}')
def firstline(): return ''.join(rnd.choice(valchars) for _ in range(rnd.randint(0,8)))
def contline():
    while True:
        s=rnd.choice(' \t')+''.join(rnd.choice(valchars) for _ in range(rnd.randint(1,8)))
        if s.strip(): return s
bad=collections.Counter(); ex={}
def armor(txt):
    return ("-----BEGIN PGP SIGNED MESSAGE-----\nHash: SHA256\n\n"+txt+"\n-----BEGIN PGP SIGNATURE-----\n\niQEzBAEBCAAdFiEE\n=abcd\n-----END PGP SIGNATURE-----\n")
def comments(txt):
    out=[]
    for l in txt.splitlines(True):
        if rnd.random()<.3: out.append('# comment: x\n')
        out.append(l)
    return ''.join(out)
for it in range(20000):
    d=Deb822()
    for k in rnd.sample(names[:-1], rnd.randint(1,4)):
        v=firstline().strip()
        for _ in range(rnd.choice([0,0,1,2])): v+='\n'+contline()
        d[k]=v
    txt=d.dump()
    exp=[(k,d[k]) for k in d]
    for label,t in (('armor',armor(txt)),('comments',comments(txt)),('armor+comments',armor(comments(txt))), ('lead-blank','\n\n'+txt)):
        forms={'str':t,'bytes':t.encode(),'lines_nl':t.splitlines(True),'lines_nonl':t.split('\n'),'textio':io.StringIO(t),'bytesio':io.BytesIO(t.encode())}
        for fn,f in forms.items():
            for cls in (Deb822,Dsc):
                try:
                    o=cls(f) if not hasattr(f,'seek') else cls(type(f)(f.getvalue()))
                    g=[(k,o[k]) for k in o]
                except Exception as e:
                    bad[label+fn+cls.__name__+':exc:'+type(e).__name__]+=1; ex.setdefault(label+fn+':exc',(t,repr(e))); continue
                if g!=exp:
                    bad[label+':'+fn+':'+cls.__name__]+=1; ex.setdefault(label+fn+cls.__name__,(t,exp,g))
print(bad)
for k,v in list(ex.items())[:6]: print(k, v)
