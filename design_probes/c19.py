import random, collections, difflib, tempfile, os, gzip, hashlib, shutil, builtins, io
from unittest import mock
from debian import debian_support as ds
rnd=random.Random(4)
import _sha2; ds.new_sha256=_sha2.sha256
def ed_from(old,new):
    sm=difflib.SequenceMatcher(a=old,b=new,autojunk=False)
    out=[]
    for tag,i1,i2,j1,j2 in reversed(sm.get_opcodes()):
        if tag=='equal': continue
        if tag=='insert': out.append('%da\n'%i1); out+=new[j1:j2]; out.append('.\n')
        elif tag=='delete': out.append(('%dd\n'%(i1+1)) if i2-i1==1 else '%d,%dd\n'%(i1+1,i2))
        else: out.append(('%dc\n'%(i1+1)) if i2-i1==1 else '%d,%dc\n'%(i1+1,i2)); out+=new[j1:j2]; out.append('.\n')
    return out
def sha(lines,alg): return getattr(hashlib,alg)(''.join(lines).encode()).hexdigest()
def para(i): return ['Package: p%d\n'%i,'Version: %d\n'%rnd.randint(1,9),'Description: é x\n',' more\n','\n']
def evolve(v):
    v=list(v)
    for _ in range(rnd.randint(1,3)):
        op=rnd.choice('idr')
        if op=='i' or not v: 
            k=rnd.randint(0,len(v)); v[k:k]=para(rnd.randint(0,99))
        elif op=='d': v.pop(rnd.randrange(len(v)))
        else: v[rnd.randrange(len(v))]='Changed: %d\n'%rnd.randint(0,999)
    return v
def publish(root,versions,alg):
    os.makedirs(root+'/Packages.diff',exist_ok=True)
    cur=versions[-1]
    with gzip.open(root+'/Packages.gz','wt',encoding='utf-8') as f: f.write(''.join(cur))
    pre='SHA1' if alg=='sha1' else 'SHA256'
    hist=[];pat=[]
    for i in range(len(versions)-1):
        name='p%d'%i
        sc=ed_from(versions[i],versions[i+1])
        with gzip.open(root+'/Packages.diff/%s.gz'%name,'wt',encoding='utf-8') as f: f.write(''.join(sc))
        hist.append(' %s %d %s\n'%(sha(versions[i],alg),len(''.join(versions[i]).encode()),name))
        pat.append(' %s %d %s\n'%(sha(sc,alg),len(''.join(sc).encode()),name))
    idx='%s-Current: %s %d\n%s-History:\n%s%s-Patches:\n%s'%(pre,sha(cur,alg),len(''.join(cur).encode()),pre,''.join(hist),pre,''.join(pat))
    open(root+'/Packages.diff/Index','w').write(idx)
bad=collections.Counter(); ex={}
for it in range(400):
    td=tempfile.mkdtemp()
    try:
        n=rnd.randint(1,4)
        vs=[sum((para(i) for i in range(rnd.randint(0,4))),[])]
        for _ in range(n): vs.append(evolve(vs[-1]))
        alg=rnd.choice(['sha1','sha256'])
        root=td+'/mirror'; publish(root,vs,alg)
        remote='file://'+root+'/Packages'
        local=td+'/local'
        startkind=rnd.choice(['vi','current','foreign','absent'])
        if startkind=='vi': start=vs[rnd.randrange(len(vs)-1)]
        elif startkind=='current': start=vs[-1]
        elif startkind=='foreign': start=['Foreign: 1\n']
        else: start=None
        if start is not None: open(local,'w',encoding='utf-8').write(''.join(start))
        fault=rnd.choice([None,None,'corrupt-patch','trunc-patch','no-index','bad-index','write-fail','rename-fail'])
        pidx=rnd.randrange(len(vs)-1)
        if fault=='corrupt-patch':
            p=root+'/Packages.diff/p%d.gz'%pidx; t=gzip.open(p,'rt',encoding='utf-8').read()
            with gzip.open(p,'wt',encoding='utf-8') as f: f.write(t+'1a\nX\n.\n')
        elif fault=='trunc-patch':
            p=root+'/Packages.diff/p%d.gz'%pidx; b=open(p,'rb').read(); open(p,'wb').write(b[:len(b)//2])
        elif fault=='no-index': os.unlink(root+'/Packages.diff/Index')
        elif fault=='bad-index': open(root+'/Packages.diff/Index','w').write('this is not\n an index ::\n')
        before=open(local,encoding='utf-8').read() if start is not None else None
        patches=[]
        cnt={'w':0}
        failat=rnd.randint(1,6)
        real_open=builtins.open
        if fault=='write-fail':
            class FW:
                def __init__(s,f): s.f=f
                def write(s,x):
                    cnt['w']+=1
                    if cnt['w']==failat: raise OSError(28,'No space left')
                    return s.f.write(x)
                def __enter__(s): s.f.__enter__(); return s
                def __exit__(s,*a): return s.f.__exit__(*a)
                def __getattr__(s,n): return getattr(s.f,n)
            def fo(name,mode='r',*a,**k):
                f=real_open(name,mode,*a,**k)
                if isinstance(name,str) and name.endswith('.new'): return FW(f)
                return f
            patches.append(mock.patch.object(ds,'open',fo,create=True))
        elif fault=='rename-fail':
            def fr(a,b): raise OSError(13,'denied')
            patches.append(mock.patch.object(ds.os,'rename',fr))
        for p in patches: p.start()
        try:
            try:
                ret=ds.update_file(remote,local); err=None
            except Exception as e: ret=None; err=e
        finally:
            for p in patches: p.stop()
        after=open(local,encoding='utf-8').read() if os.path.exists(local) else None
        tmpleft=os.path.exists(local+'.new')
        key=(startkind,fault)
        injected = fault in('write-fail','rename-fail') and (fault=='rename-fail' or cnt['w']>=failat)
        # was the faulty thing actually on the path?
        if err is None:
            if ret!=vs[-1] or after!=''.join(vs[-1]): bad['noconverge:%s:%s'%key]+=1; ex.setdefault('noconverge:%s:%s'%key,(repr(ret)[:200],after and after[:200]))
        else:
            if after!=before: bad['corrupted:%s:%s'%key]+=1; ex.setdefault('corrupted:%s:%s'%key,(repr(err),before,after))
            # error allowed?
            uses_patch = startkind=='vi'
            allowed = (fault in('corrupt-patch','trunc-patch') and uses_patch) or fault in('write-fail','rename-fail')
            if not allowed: bad['unexpected-error:%s:%s:%s'%(key+(type(err).__name__,))]+=1; ex.setdefault('unexpected-error:%s:%s'%key,repr(err))
        if tmpleft: bad['tmpleft:%s:%s'%key]+=1
        bad['ok:'+str(fault)+(':err' if err else ':fine')]+=0
    finally:
        shutil.rmtree(td)
print({k:v for k,v in bad.items() if v})
for k,v in ex.items(): print('====',k); print(str(v)[:900])
