import random, collections, warnings
from debian.deb822 import PkgRelation
rnd=random.Random(3)
AR=PkgRelation.ArchRestriction; BR=PkgRelation.BuildRestriction
def name(): return rnd.choice('abz09')+''.join(rnd.choice('ab09.+-') for _ in range(rnd.randint(0,5)))
def archname(): return rnd.choice(['amd64','i386','linux-any','any-arm','hurd-i386','kfreebsd-amd64','a','x32'])
def ver(): return rnd.choice(['1','1.0-1','2:1.0~rc1-1+b1','0.9.8zh-1','1.2.3+dfsg','a','1:2:3'])
def prof(): return rnd.choice(['stage1','nocheck','cross','pkg.foo.bar','nodoc','x'])
def rel():
    d={'name':name(),'archqual':None,'version':None,'arch':None,'restrictions':None}
    if rnd.random()<.3: d['archqual']=rnd.choice(['any','native','amd64','a-b'])
    if rnd.random()<.5: d['version']=(rnd.choice(['<<','<=','=','>=','>>']),ver())
    if rnd.random()<.4: d['arch']=[AR(rnd.random()<.5,archname()) for _ in range(rnd.randint(1,3))]
    if rnd.random()<.4: d['restrictions']=[[BR(rnd.random()<.5,prof()) for _ in range(rnd.randint(1,3))] for _ in range(rnd.randint(1,3))]
    return d
bad=collections.Counter(); ex={}
for it in range(50000):
    rels=[[rel() for _ in range(rnd.randint(1,3))] for _ in range(rnd.randint(1,4))]
    s=PkgRelation.str(rels)
    with warnings.catch_warnings(record=True) as w:
        warnings.simplefilter('always')
        back=PkgRelation.parse_relations(s)
    if w: bad['warn']+=1; ex.setdefault('warn',(s,str(w[0].message)))
    if back!=rels: bad['struct']+=1; ex.setdefault('struct',(s,rels,back))
    if PkgRelation.str(back)!=s: bad['restr']+=1; ex.setdefault('restr',(s,PkgRelation.str(back)))
print(bad)
for k,v in ex.items(): print(k,str(v)[:700])
