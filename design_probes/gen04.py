import random, collections, warnings
from debian.changelog import Changelog, ChangelogParseError
rnd=random.Random(3)
def pkg(): return rnd.choice('abz09_')+''.join(rnd.choice('ab09.+-') for _ in range(rnd.randint(0,6)))
def ver(): return rnd.choice(['1','1.0-1','2:1.0~rc1-1+b1','0.9.8zh-1','1.2.3+dfsg','1:2:3','1.0-1~bpo8+1'])
def dist(): return ' '.join(rnd.choice(['unstable','stable-security','UNRELEASED','bookworm-backports','sid','experimental','a.b','x+y']) for _ in range(rnd.randint(1,3)))
def urg(): return rnd.choice(['low','medium','high','emergency','critical','HIGH'])
def change(): 
    return rnd.choice(['  * ','    ','  [ X ]','   - ','  '])+''.join(rnd.choice('ab c:#é漢-*.') for _ in range(rnd.randint(1,20)))
def date():
    return '%s%d %s %d %02d:%02d:%02d %s%04d'%(rnd.choice(['Mon, ','Tue, ','','Thu,']), rnd.randint(1,31), rnd.choice(['Jan','Feb','Dec']), rnd.randint(1990,2030), rnd.randint(0,23),rnd.randint(0,59),rnd.randint(0,59), rnd.choice('+-'), rnd.randint(0,1400))
def block():
    hdr='%s (%s) %s; urgency=%s'%(pkg(),ver(),dist(),urg())
    if rnd.random()<.2: hdr+=' (HIGH for foo)'
    if rnd.random()<.2: hdr+=', binary-only=yes'
    lines=[hdr,'']
    for _ in range(rnd.randint(1,4)):
        lines.append(change())
        if rnd.random()<.2: lines.append('')
    if lines[-1]!='': lines.append('')
    lines.append(' -- %s <%s>  %s'%(rnd.choice(['A B','Zoë Q. X','a','A (x) B']), rnd.choice(['a@b.c','x@y']), date()))
    return lines
