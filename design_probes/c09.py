import random, collections
from debian.deb822 import Deb822
rnd=random.Random(3)
keys=['a','A','b','B','Foo','FOO','foo','c']
bad=collections.Counter(); ex={}
def model_find(m,k):
    for i,(kk,v) in enumerate(m):
        if kk.lower()==k.lower(): return i
    return -1
for it in range(30000):
    d=Deb822(); m=[]
    hist=[]
    for step in range(rnd.randint(1,25)):
        op=rnd.choice(['set','set','del','get','first','last','before','after','sort','copy','cycle','in'])
        k=rnd.choice(keys); r=rnd.choice(keys)
        hist.append((op,k,r))
        try:
            if op=='set':
                v=str(step); d[k]=v
                i=model_find(m,k)
                if i<0: m.append((k,v))
                else: m[i]=(m[i][0],v)
            elif op=='del':
                i=model_find(m,k)
                try:
                    del d[k]; got=None
                except KeyError: got='KeyError'
                if i<0: assert got=='KeyError',('del missing',got)
                else:
                    assert got is None; m.pop(i)
            elif op=='get':
                i=model_find(m,k)
                try: got=d[k]
                except KeyError: got=KeyError
                assert got==(m[i][1] if i>=0 else KeyError)
            elif op=='in':
                assert (k in d)==(model_find(m,k)>=0)
            elif op in('first','last'):
                i=model_find(m,k)
                try:
                    getattr(d,'order_'+op)(k); got=None
                except KeyError: got='KeyError'
                if i<0: assert got=='KeyError'
                else:
                    assert got is None
                    e=m.pop(i); m.insert(0 if op=='first' else len(m), e)
            elif op in('before','after'):
                i=model_find(m,k); j=model_find(m,r)
                try:
                    getattr(d,'order_'+op)(k,r); got=None
                except KeyError: got='KeyError'
                except ValueError: got='ValueError'
                if k.lower()==r.lower():
                    # property: ValueError; but if key missing? unspecified
                    if i>=0: assert got=='ValueError',('self',got)
                    else: assert got in('ValueError','KeyError')
                elif i<0 or j<0: assert got=='KeyError',('missing',got)
                else:
                    assert got is None
                    e=m.pop(i); j=model_find(m,r)
                    m.insert(j if op=='before' else j+1, e)
            elif op=='sort':
                d.sort_fields(); m.sort(key=lambda kv: kv[0].lower())
            elif op=='copy':
                d=d.copy()
            elif op=='cycle':
                d=Deb822(d.dump())
            assert list(d)==[k for k,v in m],('keys',list(d),m)
            assert len(d)==len(m)
            assert [d[k] for k in d]==[v for k,v in m]
        except AssertionError as e:
            bad[str(e)[:40]]+=1; ex.setdefault(str(e)[:40],(hist,list(d),m)); break
print(bad)
for k,v in list(ex.items())[:8]: print(k,v)
