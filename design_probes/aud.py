import sys, os, tempfile, gzip
ev=[]
on=[True]
def hook(e,a):
    if on[0] and e in('open','os.rename','os.remove','urllib.Request'):
        ev.append((e,)+tuple(str(x)[:80] for x in a[:2]))
sys.addaudithook(hook)
from debian import debian_support as ds
td=tempfile.mkdtemp()
with gzip.open(td+'/P.gz','wt') as f: f.write('Package: a\n\n')
open(td+'/local','w').write('x\n')
ev.clear()
ds.update_file('file://'+td+'/P', td+'/local')
on[0]=False
for e in ev: print(e)
import shutil; shutil.rmtree(td)
