import itertools, random, subprocess
from debian.debian_support import Version, version_compare, NativeVersion, BaseVersion

def order(c):
    if c.isdigit(): return 0
    if c.isalpha(): return ord(c)
    if c == '~': return -1
    if c: return ord(c)+256
    return 0
def verrevcmp(a,b):
    i=j=0
    while i<len(a) or j<len(b):
        first_diff=0
        while (i<len(a) and not a[i].isdigit()) or (j<len(b) and not b[j].isdigit()):
            ac = order(a[i]) if i<len(a) else 0
            bc = order(b[j]) if j<len(b) else 0
            if ac!=bc: return ac-bc
            i+=1; j+=1
        while i<len(a) and a[i]=='0': i+=1
        while j<len(b) and b[j]=='0': j+=1
        while i<len(a) and a[i].isdigit() and j<len(b) and b[j].isdigit():
            if not first_diff: first_diff = ord(a[i])-ord(b[j])
            i+=1; j+=1
        if i<len(a) and a[i].isdigit(): return 1
        if j<len(b) and b[j].isdigit(): return -1
        if first_diff: return first_diff
    return 0
def split(v):
    e='0'
    if ':' in v: e,v=v.split(':',1)
    r=''
    if '-' in v: v,r=v.rsplit('-',1)
    return int(e),v,r
def ref(a,b):
    ea,ua,ra=split(a); eb,ub,rb=split(b)
    if ea!=eb: return -1 if ea<eb else 1
    c=verrevcmp(ua,ub)
    if c: return -1 if c<0 else 1
    c=verrevcmp(ra,rb)
    return 0 if c==0 else (-1 if c<0 else 1)
def sgn(x): return (x>0)-(x<0)
rnd=random.Random(1)
alpha='01a~+.-9zA'
def gen():
    n=rnd.randint(1,6)
    u=rnd.choice('0129')+''.join(rnd.choice(alpha) for _ in range(n-1))
    s=u
    if rnd.random()<.3: s=rnd.choice(['0','1','00','2'])+':'+s
    if rnd.random()<.4: s=s+'-'+''.join(rnd.choice('01a~+.9') for _ in range(rnd.randint(1,3)))
    return s
vs=set()
while len(vs)<400:
    v=gen()
    if v.endswith("-") or "-:" in v: continue
    try: Version(v); vs.add(v)
    except ValueError: pass
vs=sorted(vs)
bad=[];hbad=[]
for a in vs:
    for b in vs:
        r=ref(a,b); g=version_compare(a,b)
        if r!=g: bad.append((a,b,r,g))
        if r==0 and hash(Version(a))!=hash(Version(b)): hbad.append((a,b))
print(len(vs)**2,'pairs; mismatches',len(bad), bad[:10]); print('hash bad',len(hbad),hbad[:10])
# cross-check reference vs dpkg on a sample
smp=rnd.sample([(a,b) for a in vs for b in vs],300)
d=0
for a,b in smp:
    r=ref(a,b)
    op={-1:'lt',0:'eq',1:'gt'}[r]
    rc=subprocess.run(['dpkg','--compare-versions',a,op,b]).returncode
    if rc!=0: d+=1; print('REF!=dpkg',a,b,r)
print('dpkg disagreements with ref',d)
