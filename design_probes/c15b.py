import random, collections, warnings
from debian.changelog import Changelog, ChangelogParseError, ChangelogCreateError
exec(open('gen04.py').read())
rnd=random.Random(12)
bad=collections.Counter(); ex={}
def blocksig(c):
    return [(b.package,str(b._raw_version),b.distributions,b.urgency,b.urgency_comment,tuple(b.changes()),b.author,b.date,tuple(sorted(b.other_pairs.items()))) for b in c]
for it in range(30000):
    hist=[]
    if rnd.random()<.5:
        lines=[]
        for i in range(rnd.randint(1,3)):
            lines+=block(); lines+=['']
        c=Changelog('\n'.join(lines)+'\n',strict=True); hist.append(('parse',lines))
    else:
        c=Changelog(); 
    for _ in range(rnd.randint(1,6)):
        op=rnd.choice(['new_block','add_change','version','dist','urgency','author','date','package'])
        if len(c)==0: op='new_block'
        if op=='new_block':
            kw=dict(package=pkg(),version=ver(),distributions=dist(),urgency=urg(),author='A B <a@b>',date=date())
            if rnd.random()<.5: kw['changes']=['', change(), ''] if rnd.random()<.7 else [change()]
            if rnd.random()<.3: kw.pop(rnd.choice(list(kw)))
            c.new_block(**kw); hist.append((op,kw))
        elif op=='add_change':
            ch=rnd.choice([change(),'']) ; c.add_change(ch); hist.append((op,ch))
        elif op=='version': v=ver(); c.version=v; hist.append((op,v))
        elif op=='dist': v=dist(); c.distributions=v; hist.append((op,v))
        elif op=='urgency': v=urg(); c.urgency=v; hist.append((op,v))
        elif op=='author': v='Zoë X <z@x>'; c.author=v; hist.append((op,v))
        elif op=='date': v=date(); c.date=v; hist.append((op,v))
        elif op=='package': v=pkg(); c.package=v; hist.append((op,v))
    try: s=str(c)
    except ChangelogCreateError: bad['unformattable']+=1; continue
    try:
        with warnings.catch_warnings(record=True) as w:
            warnings.simplefilter('always')
            c2=Changelog(s)
        s2=str(c2)
    except Exception as e:
        bad['reparse-exc:'+type(e).__name__]+=1; ex.setdefault('reparse-exc',(hist,s,repr(e))); continue
    if w: bad['reparse-warn']+=1; ex.setdefault('reparse-warn',(hist,s,str(w[0].message)))
    if s2!=s: bad['not-fixpoint']+=1; ex.setdefault('not-fixpoint',(hist,s,s2))
    elif blocksig(c2)!=blocksig(c): bad['blocks-differ']+=1; ex.setdefault('blocks-differ',(hist,s,blocksig(c),blocksig(c2)))
print(bad)
for k,v in ex.items():
    print('=====',k)
    for x in v: print(x); print('--')
