import random, io, collections
from debian.deb822 import Deb822, Dsc, Changes
rnd=random.Random(5)
names=['Package','X-a','foo','A','b9','Foo_Bar','x!y','#no']  # '#no' invalid (starts with #) - exclude
names=[n for n in names if not n.startswith('#')]
valchars=list('ab:# \t-.,=é漢(){}')
def firstline():
    s=''.join(rnd.choice(valchars) for _ in range(rnd.randint(0,8)))
    return s
def contline():
    while True:
        s=rnd.choice(' \t')+''.join(rnd.choice(valchars) for _ in range(rnd.randint(1,8)))
        if s.strip(): return s
def genpara():
    ks=rnd.sample(names, rnd.randint(1,4))
    p=[]
    for k in ks:
        fl=firstline()
        cl=[contline() for _ in range(rnd.choice([0,0,1,2,3]))]
        p.append((k,fl,cl))
    return p
def text(p):
    out=[]
    for k,fl,cl in p:
        out.append(k+':'+(' '+fl if fl.strip() else fl.strip())) if False else None
    return out
def expected_value(fl,cl):
    v=fl.strip()
    # Deb822 keeps continuation lines verbatim, but strips trailing ws? _multidata: content += '\n'+line  (whole line)
    for c in cl: v+='\n'+c
    return v
bad=collections.Counter(); ex={}
for it in range(20000):
    paras=[genpara() for _ in range(rnd.randint(1,3))]
    # build via API then dump
    objs=[]
    ok=True
    for p in paras:
        d=Deb822()
        for k,fl,cl in p:
            try: d[k]=expected_value(fl,cl)
            except ValueError as e: ok=False
        objs.append(d)
    if not ok: bad['setitem-rejected']+=1; continue
    txt='\n'.join(o.dump() for o in objs)
    forms={'str':txt,'bytes':txt.encode(),'lines_nl':txt.splitlines(True),'lines_nonl':txt.split('\n'),
           'textio':io.StringIO(txt),'bytesio':io.BytesIO(txt.encode())}
    for fn,f in forms.items():
        try:
            got=list(Deb822.iter_paragraphs(f))
        except Exception as e:
            bad[fn+':exc:'+type(e).__name__]+=1; ex.setdefault(fn+':exc',(txt,repr(e))); continue
        exp=[[(k,o[k]) for k in o] for o in objs]
        g=[[(k,o[k]) for k in o] for o in got]
        if g!=exp:
            bad[fn+':mismatch']+=1; ex.setdefault(fn+':mismatch',(txt,exp,g))
print(bad)
for k,v in ex.items(): print(k, v)
