import random, collections, difflib, subprocess, tempfile, os
from debian.debian_support import patches_from_ed_script, patch_lines
rnd=random.Random(4)
def ed_from(old,new):
    sm=difflib.SequenceMatcher(a=old,b=new,autojunk=False)
    out=[]
    for tag,i1,i2,j1,j2 in reversed(sm.get_opcodes()):
        if tag=='equal': continue
        if tag=='insert':
            out.append('%da\n'%i1); out+=new[j1:j2]; out.append('.\n')
        elif tag=='delete':
            out.append(('%dd\n'%(i1+1)) if i2-i1==1 else '%d,%dd\n'%(i1+1,i2))
        else:
            out.append(('%dc\n'%(i1+1)) if i2-i1==1 else '%d,%dc\n'%(i1+1,i2)); out+=new[j1:j2]; out.append('.\n')
    return out
bad=collections.Counter(); ex={}
def lines(n): return [rnd.choice(['a','b','c','','x y','..','. ','1a','d'])+'\n' for _ in range(n)]
for it in range(30000):
    old=lines(rnd.randint(0,8)); new=list(old)
    for _ in range(rnd.randint(0,4)):
        op=rnd.choice('idr')
        if op=='i': new.insert(rnd.randint(0,len(new)),rnd.choice(['N\n','M\n','\n']))
        elif new and op=='d': new.pop(rnd.randrange(len(new)))
        elif new: new[rnd.randrange(len(new))]='R\n'
    if rnd.random()<.1: new=lines(rnd.randint(0,5))
    script=ed_from(old,new)
    for mode in ('str','bytes'):
        o=[l if mode=='str' else l.encode() for l in old]
        s=[l if mode=='str' else l.encode() for l in script]
        n=[l if mode=='str' else l.encode() for l in new]
        try:
            patch_lines(o, patches_from_ed_script(s))
        except Exception as e:
            bad[mode+':exc:'+type(e).__name__]+=1; ex.setdefault(mode+':exc',(old,new,script,repr(e))); continue
        if o!=n: bad[mode+':wrong']+=1; ex.setdefault(mode+':wrong',(old,new,script,o))
    if it<1500:
        with tempfile.TemporaryDirectory() as td:
            open(td+'/a','w').write(''.join(old)); open(td+'/b','w').write(''.join(new))
            r=subprocess.run(['diff','-e',td+'/a',td+'/b'],capture_output=True,text=True)
            sc=r.stdout.splitlines(True)
            o=list(old)
            try:
                patch_lines(o,patches_from_ed_script(sc))
                if o!=new: bad['diff-e:wrong']+=1; ex.setdefault('diff-e:wrong',(old,new,sc,o))
            except Exception as e:
                bad['diff-e:exc']+=1; ex.setdefault('diff-e:exc',(old,new,sc,repr(e)))
# malformed
for it in range(20000):
    old=lines(5); new=lines(5); script=ed_from(old,new)
    if not script: continue
    cmds=[i for i,l in enumerate(script) if l[0].isdigit() and l.rstrip('\n')[-1] in 'acd' and (i==0 or script[i-1]=='.\n' or script[i-1].rstrip('\n')[-1:]=='d')]
    k=rnd.choice(['badcmd','unterminated','a-range'])
    s=list(script)
    if k=='badcmd':
        i=rnd.choice(cmds); s[i]=rnd.choice(['x\n','1,2\n','1x\n','a\n','-1d\n','1,2,3d\n',' 1d\n','1d \n'])
    elif k=='unterminated':
        dots=[i for i,l in enumerate(s) if l=='.\n']
        if not dots: continue
        # remove last dot terminator and everything after -> text block hits end of stream
        i=dots[-1]; s=s[:i]
        # the library checks for '' sentinel only; a list iterator just ends
    elif k=='a-range':
        i=rnd.choice(cmds); 
        if not s[i].endswith('a\n'): continue
        s[i]='1,2a\n'
    o=list(old)
    try:
        patch_lines(o,patches_from_ed_script(s)); bad[k+':no-error']+=1; ex.setdefault(k+':no-error',(old,script,s,o))
    except ValueError: pass
    except Exception as e: bad[k+':other:'+type(e).__name__]+=1; ex.setdefault(k+':other',(s,repr(e)))
print(bad)
for k,v in ex.items(): print('====',k); print(str(v)[:900])
