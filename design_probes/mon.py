import sys, time, collections
from debian import changelog
mon=sys.monitoring; TID=3
mon.use_tool_id(TID,'vp')
code=changelog.Changelog.parse_changelog.__code__
seen=collections.Counter()
# find the line number of "line = line.rstrip('\n')" + 1
import inspect
src,start=inspect.getsourcelines(changelog.Changelog.parse_changelog)
target=[start+i for i,l in enumerate(src) if 'if state in (first_heading, next_heading_or_eof):' in l][0]
def on_line(co,lineno):
    if lineno==target:
        f=sys._getframe(1)
        seen[(f.f_locals['state'], f.f_locals['line'][:3])]+=1
    else:
        return mon.DISABLE
mon.register_callback(TID,mon.events.LINE,on_line)
mon.set_local_events(TID,code,mon.events.LINE)
txt=open('/repo/lib/debian/tests/test_changelog').read()
t=time.time()
for _ in range(200): changelog.Changelog(txt)
print('with',time.time()-t, len(seen))
mon.set_local_events(TID,code,0)
t=time.time()
for _ in range(200): changelog.Changelog(txt)
print('without',time.time()-t)
print(list(seen.items())[:5])
