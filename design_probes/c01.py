import itertools, sys
from debian._deb822_repro import parse_deb822_file
from debian._deb822_repro.tokens import tokenize_deb822_file
# line classes
bodies = ['', ' ', '\t', '# c', '#', ' cont', '\tcont', ' ', 'A: b', 'A:', 'A:  ', 'A : b', 'garbage', '-x: y', ' # nc', 'A: b ', 'a:b:c', ' .', '\x0b', 'A:\x0b', 'é: x', 'A: é ']
fails = {}
n=0
for k in (1,2,3):
    for combo in itertools.product(bodies, repeat=k):
        for last_nl in (True, False):
            lines = [b+'\n' for b in combo]
            if not last_nl:
                lines[-1] = combo[-1]
                if lines[-1]=='' : continue
            n+=1
            exp = ''.join(lines)
            try:
                toks = ''.join(t.text for t in tokenize_deb822_file(iter(lines)))
                d = parse_deb822_file(iter(lines), accept_files_with_error_tokens=True, accept_files_with_duplicated_fields=True).dump()
                if toks != exp or d != exp:
                    fails.setdefault('MISMATCH',[]).append((lines, toks, d))
            except Exception as e:
                fails.setdefault(type(e).__name__+':'+str(e)[:60],[]).append(lines)
        # unterminated form
        if k>=2 and all('\n' not in b for b in combo):
            n+=1
            lines=list(combo)
            exp=''.join(b+'\n' for b in combo)
            try:
                d = parse_deb822_file(iter(lines), accept_files_with_error_tokens=True, accept_files_with_duplicated_fields=True).dump()
                if d!=exp: fails.setdefault('MISMATCH-nonl',[]).append((lines,d))
            except Exception as e:
                fails.setdefault('nonl:'+type(e).__name__+':'+str(e)[:60],[]).append(lines)
print(n)
for k,v in fails.items():
    print(k, len(v)); 
    for x in v[:6]: print('   ', x)
