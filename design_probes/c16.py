import random, collections, itertools
from debian import copyright, deb822
rnd=random.Random(4)
class Bad(Exception): pass
def gmatch(p, s):
    # independent matcher: returns True/False or raises Bad
    # tokenise
    toks=[]; i=0
    while i<len(p):
        c=p[i]; i+=1
        if c=='*': toks.append(('*',))
        elif c=='?': toks.append(('?',))
        elif c=='\\':
            if i>=len(p): raise Bad
            c=p[i]; i+=1
            if c not in '\\?*': raise Bad
            toks.append(('L',c))
        else: toks.append(('L',c))
    # DP
    n=len(s); cur={0}
    for t in toks:
        nxt=set()
        if t[0]=='*':
            if cur:
                m=min(cur); nxt=set(range(m,n+1))
        elif t[0]=='?':
            nxt={j+1 for j in cur if j<n}
        else:
            nxt={j+1 for j in cur if j<n and s[j]==t[1]}
        cur=nxt
    return n in cur
alpha=['a','b','/','.','*','?','\\','\n']
salpha=['a','b','/','.','*','?','\\','\n']
bad=collections.Counter(); ex={}
def rs(al,lo,hi): return ''.join(rnd.choice(al) for _ in range(rnd.randint(lo,hi)))
for it in range(200000):
    pats=[rs(alpha,1,4) for _ in range(rnd.randint(1,3))]
    name=rs(salpha,0,5)
    try:
        exp=any([gmatch(p,name) for p in pats]); experr=False
    except Bad: experr=True
    try:
        r=copyright.globs_to_re(pats); got=r.match(name) is not None; goterr=False
    except copyright.MachineReadableFormatError: goterr=True
    if experr!=goterr: bad['err']+=1; ex.setdefault('err',(pats,experr,goterr)); continue
    if experr: continue
    if exp!=got:
        k='multi' if len(pats)>1 else 'single'
        bad[k]+=1; ex.setdefault(k,(pats,name,exp,got))
        if len(pats)>1:
            # is it explained by fullmatch?
            if (r.fullmatch(name) is not None)!=exp: bad['multi-not-fixed-by-fullmatch']+=1; ex.setdefault('nf',(pats,name,exp))
print(bad)
for k,v in ex.items(): print(k,v)
