# design-phase probe (throw-away): debtags DB vs reference relation, chain histories
import random, collections, re
from debian import debtags
rnd=random.Random(2)
bad=collections.Counter(); ex={}
def facet(t): return re.sub(r"^([^:]+).+", r"\1", t)
def check(db, rel, hist, tagk):
    pk=set(p for p,_ in rel)|tagk['empty_pkgs']; tg=set(t for _,t in rel)
    for p in pk:
        if db.tags_of_package(p)!={t for q,t in rel if q==p}: return 'tags_of_package'
    for t in tg:
        if db.packages_of_tag(t)!={p for p,u in rel if u==t}: return 'packages_of_tag'
        if db.card(t)!=len({p for p,u in rel if u==t}): return 'card'
    if db.package_count()!=len(pk): return 'package_count'
    if db.tag_count()!=len(tg): return 'tag_count'
    # inverse
    for p,ts in db.db.items():
        for t in ts:
            if p not in db.rdb.get(t,()): return 'inverse-1'
    for t,ps in db.rdb.items():
        for p in ps:
            if t not in db.db.get(p,()): return 'inverse-2'
    return None
TAGS=['a','b','use::x','use::y','role::z','c']
for it in range(20000):
    single=rnd.random()<.5
    names=iter(rnd.sample([chr(97+i) for i in range(26)] if single else ['pkg%d'%i for i in range(40)]+['ab','xyz'],12))
    db=debtags.DB(); rel=set(); empties=set(); hist=[]
    if rnd.random()<.5:
        lines=[]
        for _ in range(rnd.randint(1,4)):
            p=next(names); ts=rnd.sample(TAGS,rnd.randint(1,3))
            lines.append('%s: %s\n'%(p,', '.join(ts))); rel|={(p,t) for t in ts}
        db.read(iter(lines)); hist.append(('read',lines))
    for _ in range(rnd.randint(1,6)):
        op=rnd.choice(['insert','filter_packages','filter_packages_copy','filter_tags','filter_tags_copy','filter_packages_tags','choose_packages','facet','reverse','reverse_copy','copy'])
        if op=='insert':
            try: p=next(names)
            except StopIteration: break
            ts=set(rnd.sample(TAGS,rnd.randint(1,3))); db.insert(p,ts); rel|={(p,t) for t in ts}
        elif op.startswith('filter_packages') and 'tags' not in op:
            keep=set(rnd.sample(sorted({p for p,_ in rel}|empties), k=len({p for p,_ in rel}|empties)//2)) if rel else set()
            db=getattr(db,op)(lambda p: p in keep); rel={(p,t) for p,t in rel if p in keep}; empties&=keep
        elif op.startswith('filter_tags'):
            keep=set(rnd.sample(TAGS,3)); db=getattr(db,op)(lambda t: t in keep)
            rel={(p,t) for p,t in rel if t in keep}; empties=set()
        elif op=='filter_packages_tags':
            piv=rnd.choice(TAGS); db=db.filter_packages_tags(lambda pt: piv in pt[1]); ps={p for p,t in rel if t==piv}; rel={(p,t) for p,t in rel if p in ps}; empties=set()
        elif op=='choose_packages':
            allp=sorted({p for p,_ in rel}|empties); ch=rnd.sample(allp,len(allp)//2) if allp else []
            db=db.choose_packages(ch+['nonexistent']); rel={(p,t) for p,t in rel if p in ch}; empties&=set(ch)
        elif op=='facet':
            db=db.facet_collection(); rel={(p,facet(t)) for p,t in rel}
        elif op in('reverse','reverse_copy'):
            if empties: continue
            db=getattr(db,op)(); rel={(t,p) for p,t in rel}
        elif op=='copy': db=db.copy()
        hist.append((op,))
        r=check(db,rel,hist,{'empty_pkgs':empties})
        if r:
            bad[(r,op,'single' if single else 'multi')]+=1; ex.setdefault((r,op,single),(hist,db.db,db.rdb,sorted(rel))); break
print(bad)
for k,v in list(ex.items())[:6]: print('===',k); print(str(v)[:700])
