import random, collections, warnings, logging
from debian import copyright
logging.disable(logging.CRITICAL)
rnd=random.Random(4)
def word(): return ''.join(rnd.choice('abc/*?.-é') for _ in range(rnd.randint(1,6)))
def textline():
    k=rnd.random()
    if k<.15: return ''
    if k<.25: return '  indented '+word()
    if k<.3: return '\tTabbed'
    return ' '.join(word() for _ in range(rnd.randint(1,4)))
def lictext():
    n=rnd.randint(0,5)
    ls=[textline() for _ in range(n)]
    return '\n'.join(ls)
def lic():
    return copyright.License(rnd.choice(['GPL-2+','MIT','Apache-2.0 or GPL-2','X']), lictext())
bad=collections.Counter(); ex={}
def sig(c):
    out=[]
    for p in c.all_paragraphs():
        if isinstance(p,copyright.Header): out.append(('H',p.format,p.upstream_name,p.upstream_contact,p.source,p.license,p.copyright))
        elif isinstance(p,copyright.FilesParagraph): out.append(('F',p.files,p.copyright,p.license,p.comment))
        else: out.append(('L',p.license,p.comment))
    return out
for it in range(20000):
    c=copyright.Copyright()
    try:
        if rnd.random()<.5: c.header.upstream_name=word()
        if rnd.random()<.5: c.header.upstream_contact=[word()+' <a@b>' for _ in range(rnd.randint(1,3))]
        if rnd.random()<.3: c.header.license=lic()
        for _ in range(rnd.randint(0,3)):
            cp='\n'.join((' ' if i else '')+'2001 '+word() for i in range(rnd.randint(1,3)))
            c.add_files_paragraph(copyright.FilesParagraph.create([word() for _ in range(rnd.randint(1,3))], cp, lic()))
        for _ in range(rnd.randint(0,2)):
            c.add_license_paragraph(copyright.LicenseParagraph.create(lic()))
        s=c.dump()
    except Exception as e:
        bad['build:'+type(e).__name__]+=1; ex.setdefault('build:'+type(e).__name__,repr(e)); continue
    try:
        c2=copyright.Copyright(s.splitlines(True),strict=True)
    except Exception as e:
        bad['reparse:'+type(e).__name__]+=1; ex.setdefault('reparse:'+type(e).__name__,(s,repr(e))); continue
    if sig(c2)!=sig(c): bad['sig']+=1; ex.setdefault('sig',(s,sig(c),sig(c2)))
    if c2.dump()!=s: bad['redump']+=1; ex.setdefault('redump',(s,c2.dump()))
# codec
for it in range(100000):
    lines=[rnd.choice(['', ' ', '.', ' .', 'a', ' a', 'a ', '..', '\t', 'a b', '. ']) for _ in range(rnd.randint(0,6))]
    dom=all(not (l.strip()=='' and l!='') and l!='.' for l in lines[1:])
    enc=copyright.format_multiline_lines(lines)
    try: dec=copyright.parse_multiline_as_lines(enc)
    except Exception as e:
        bad['codec-exc']+=1; ex.setdefault('codec-exc',(lines,enc,repr(e))); continue
    if dom and '\n'.join(dec)!='\n'.join(lines): bad['codec']+=1; ex.setdefault('codec',(lines,enc,dec))
print(bad)
for k,v in ex.items(): print('====',k); print(str(v)[:1200])
