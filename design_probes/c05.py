import random, collections
from debian._deb822_repro import parse_deb822_file
rnd=random.Random(4)
NAMES=['Package','Depends','Description','X-Foo','a','Section','Arch']
def gen_field(name):
    comments=['# c %d\n'%rnd.randint(0,9) for _ in range(rnd.choice([0,0,0,1,2]))]
    sp=rnd.choice([' ','','  ','\t'])
    first=rnd.choice(['v','val ue','a, b,','x'])
    lines=[name+':'+sp+first+rnd.choice(['','',' '])+'\n']
    for _ in range(rnd.choice([0,0,1,2])):
        if rnd.random()<.3: lines.append('# inline\n')
        lines.append(rnd.choice([' ','\t','   '])+rnd.choice(['cont','more, stuff','.'])+'\n')
    value_first=first.strip()
    return {'name':name,'comments':comments,'lines':lines}
def gen_doc():
    paras=[]
    for _ in range(rnd.randint(1,3)):
        names=rnd.sample(NAMES,rnd.randint(1,4))
        paras.append([gen_field(n) for n in names])
    pieces=[]  # list of ('sep',text) / ('field',pi,fi,text)
    if rnd.random()<.3: pieces.append(('sep',rnd.choice(['\n','# lead\n\n','\n\n'])))
    for pi,p in enumerate(paras):
        for fi,f in enumerate(p):
            pieces.append(('field',pi,fi,''.join(f['comments'])+''.join(f['lines'])))
        if pi<len(paras)-1: pieces.append(('sep',rnd.choice(['\n','\n\n','\n# free\n\n',' \n'])))
        elif rnd.random()<.3: pieces.append(('sep','\n'))
    txt=''.join(p[-1] for p in pieces)
    if rnd.random()<.4 and pieces[-1][0]=='field': txt=txt[:-1]  # no final newline
    return paras,pieces,txt
def exp_value(f):
    # value as the default dict view shows: first line stripped, comments removed, final newline removed
    ls=[l for l in f['lines'] if not l.startswith('#')]
    first=ls[0].split(':',1)[1].strip()
    if len(ls)==1: return first
    return (first+'\n'+''.join(ls[1:])).rstrip('\n') if True else None
bad=collections.Counter(); ex={}
for it in range(20000):
    paras,pieces,txt=gen_doc()
    f=parse_deb822_file(txt.splitlines(True))
    if f.dump()!=txt: bad['rt']+=1; continue
    ps=list(f)
    # check values
    for pi,p in enumerate(paras):
        for fld in p:
            got=ps[pi][fld['name']]
            e=exp_value(fld)
            if got!=e: bad['value']+=1; ex.setdefault('value',(txt,fld,got,e))
    # one random op
    pi=rnd.randrange(len(paras)); p=paras[pi]
    op=rnd.choice(['set','add','del'])
    newv=rnd.choice(['new','n e w','multi\n line2\n line3'])
    # locate prefix/suffix
    def span(pi,fi):
        pos=0
        for pc in pieces:
            if pc[0]=='field' and pc[1]==pi and pc[2]==fi: return pos,pos+len(pc[-1])
            pos+=len(pc[-1])
    if op=='set':
        fi=rnd.randrange(len(p)); fld=p[fi]; a,b=span(pi,fi)
        key=rnd.choice([fld['name'],fld['name'].upper(),fld['name'].lower()])
        ps[pi][key]=newv
        out=f.dump()
        pre=txt[:a]+''.join(fld['comments']); suf=txt[b:]
        if not (out.startswith(pre) and out.endswith(suf) and len(out)>=len(pre)+len(suf)):
            # permitted: final newline supplied
            if not (b>=len(txt) and not txt.endswith('\n') and out.startswith(pre)):
                bad['set-nonlocal']+=1; ex.setdefault('set-nonlocal',(txt,key,newv,out))
        mid=out[len(pre):len(out)-len(suf)] if suf else out[len(pre):]
        if not mid.startswith(fld['name']+':'): bad['set-name-case']+=1; ex.setdefault('set-name-case',(txt,key,out))
    elif op=='add':
        name='New-Field'
        ps[pi][name]=newv
        out=f.dump()
        a,b=span(pi,len(p)-1)
        pre=txt[:b]; suf=txt[b:]
        if not pre.endswith('\n'): pre+='\n'
        if not(out.startswith(pre) and out.endswith(suf)): bad['add-nonlocal']+=1; ex.setdefault('add-nonlocal',(txt,newv,out))
        else:
            mid=out[len(pre):len(out)-len(suf)] if suf else out[len(pre):]
            if not (mid.startswith('New-Field:') and mid.endswith('\n')): bad['add-mid']+=1; ex.setdefault('add-mid',(txt,out,mid))
    else:
        fi=rnd.randrange(len(p)); fld=p[fi]; a,b=span(pi,fi)
        if len(p)==1: continue
        del ps[pi][fld['name']]
        out=f.dump()
        exp=txt[:a]+txt[b:]
        if out!=exp: bad['del']+=1; ex.setdefault('del',(txt,fld['name'],out,exp))
    # reparse
    try:
        f2=parse_deb822_file(out.splitlines(True))
        ps2=list(f2)
        if len(ps2)!=len(paras): bad['reparse-paras:'+op]+=1; ex.setdefault('reparse-paras:'+op,(txt,op,out))
    except Exception as e:
        bad['reparse-exc:'+op]+=1; ex.setdefault('reparse-exc:'+op,(txt,out,repr(e)))
print(bad)
for k,v in ex.items(): print('====',k); print(v)
