import random, collections
from debian._deb822_repro import parse_deb822_file
from debian._deb822_repro.tokens import tokenize_deb822_file
rnd=random.Random(9)
chars=['a','B',':','#',' ','\t','\r','\x0b','\x0c','\x85',' ','\xa0','-','é','漢',',','\x00','\x7f','.','~']
bad=collections.Counter(); ex={}
def line():
    k=rnd.random()
    if k<.15: return ''
    if k<.25: return rnd.choice([' ','\t','  ','\x0b',' \r','\xa0'])
    if k<.35: return '#'+''.join(rnd.choice(chars) for _ in range(rnd.randint(0,4)))
    if k<.6: return rnd.choice(['A','Foo-Bar','x','a:b'])+':'+''.join(rnd.choice(chars) for _ in range(rnd.randint(0,6)))
    if k<.8: return rnd.choice(' \t')+''.join(rnd.choice(chars) for _ in range(rnd.randint(0,6)))
    return ''.join(rnd.choice(chars) for _ in range(rnd.randint(1,6)))
def known(lines,term):
    # known mechanism: whitespace-only line directly after a whitespace-only line where the later one is unterminated (or nonl mode)
    import re
    ws=[re.match(r'^\s+$',l) is not None or (not term and l=='') for l in lines]
    if term=='last-unterminated':
        return len(lines)>=2 and re.match(r'^\s+$',lines[-1]) and re.match(r'^\s+$',lines[-2])
    return False
for it in range(200000):
    n=rnd.randint(1,8)
    body=[line() for _ in range(n)]
    mode=rnd.choice(['all','lastno','nonl'])
    if mode=='nonl':
        if n<2: continue
        lines=body; exp=''.join(b+'\n' for b in body)
    else:
        lines=[b+'\n' for b in body]
        if mode=='lastno':
            if body[-1]=='': continue
            lines[-1]=body[-1]
        exp=''.join(lines)
    try:
        if mode!='nonl':
            t=''.join(x.text for x in tokenize_deb822_file(iter(lines)))
            if t!=exp: bad['tok-mismatch']+=1; ex.setdefault('tok',(lines,t))
        d=parse_deb822_file(iter(lines),accept_files_with_error_tokens=True,accept_files_with_duplicated_fields=True).dump()
        if d!=exp: bad['dump-mismatch:'+mode]+=1; ex.setdefault('dump:'+mode,(lines,d))
    except Exception as e:
        import re
        W=lambda s: re.match(r'^\s+$',s) is not None
        if mode=='lastno': cls='ws-unterminated-after-ws' if (W(lines[-1]) and len(lines)>1 and W(lines[-2])) else 'OTHER'
        elif mode=='nonl': cls='nonl-adjacent-ws' if any(W(a+'\n') and W(b) for a,b in zip(body,body[1:])) else 'OTHER'
        else: cls='OTHER'
        bad[mode+':'+cls+':'+type(e).__name__]+=1; 
        if cls=='OTHER': ex.setdefault(mode+':OTHER',(lines,repr(e)))
print(bad)
for k,v in ex.items(): print('====',k); print(v)
