# hostile C11 layouts with a precise split oracle; run against repaired scratch copy
import random, collections
from debian._deb822_repro import parse_deb822_file, LIST_SPACE_SEPARATED_INTERPRETATION as SP, LIST_COMMA_SEPARATED_INTERPRETATION as CM
rnd=random.Random(33)
def oracle(ftxt, comma):
    body=ftxt.split(':',1)[1]
    ls=body.split('\n')
    ls=[ls[0]]+[l for l in ls[1:] if not l.startswith('#')]
    joined='\n'.join(ls)
    items=[x.strip() for x in joined.split(',')] if comma else joined.split()
    return [x for x in items if x]
def gen_layout(comma):
    n=rnd.randint(1,6)
    vals=[]
    for i in range(n):
        if comma: v=rnd.choice(['foo','bar (>= 1.0)','baz | qux','a','lib-x [amd64 i386]','${misc:Depends}','p:any','#hash','x#y'])
        else: v=rnd.choice(['foo','bar','amd64','any','a','linux-any','#hash','x#y','!armel'])
        vals.append(v+str(i) if rnd.random()<.5 else v)
    out='F:'+rnd.choice(['',' ','  ','\t'])
    at_line_start=False; first_line=True
    def linebreak():
        nonlocal out
        s='\n'
        for _ in range(rnd.choice([0,0,1,2])): s+=rnd.choice(['# note\n','#\n','# a, b c\n','#,\n'])
        s+=rnd.choice([' ','\t','  ',' \t'])
        return s
    if rnd.random()<.25: out=out.rstrip(' \t') if rnd.random()<.5 else out; out+=linebreak(); 
    if comma and rnd.random()<.1: out+=','+rnd.choice(['',' '])
    for i,v in enumerate(vals):
        out+=v
        last=(i==len(vals)-1)
        if comma:
            if not last or rnd.random()<.4:
                out+=rnd.choice(['',' '])+','
                if not last and rnd.random()<.1: out+=rnd.choice(['',' '])+','   # doubled
                if not last:
                    out+= linebreak() if rnd.random()<.45 else rnd.choice([' ','','  '])
                elif rnd.random()<.2: out+=' '
            else:
                if rnd.random()<.3: out+=' '
        else:
            if not last:
                out+= (rnd.choice(['',' '])+linebreak()) if rnd.random()<.45 else rnd.choice([' ','  ','\t'])
            elif rnd.random()<.3: out+=rnd.choice([' ','\t'])
    out+='\n'
    return out,vals
bad=collections.Counter(); ex={}
def words(comma): return rnd.choice(['NEW','n-2','z (<< 2)'] if comma else ['NEW','n-2'])
for it in range(60000):
    comma=rnd.random()<.5
    ftxt,vals=gen_layout(comma)
    exp=oracle(ftxt,comma)
    if exp!=vals: bad['GENERATOR-ORACLE']+=1; ex.setdefault('GEN',(ftxt,vals,exp)); continue
    pre='Package: p\n# fc\nOther: keep  me \n'; post='Tail: t\n more\n'
    pos=rnd.choice(['mid','last','first'])
    txt={'mid':pre+ftxt+post,'last':pre+post+ftxt,'first':ftxt+pre+post}[pos]
    final_nl=rnd.random()<.7
    if not final_nl: txt=txt[:-1]
    try: f=parse_deb822_file(txt.splitlines(True))
    except Exception as e: bad['parse-exc']+=1; ex.setdefault('parse-exc',(txt,repr(e))); continue
    p=next(iter(f)); interp=CM if comma else SP
    try:
        with p.as_interpreted_dict_view(interp)['F'] as l: got=list(l)
    except Exception as e: bad['read-exc']+=1; ex.setdefault('read-exc',(txt,repr(e))); continue
    if got!=exp: bad['read']+=1; ex.setdefault('read:'+str(comma),(ftxt,got,exp)); continue
    if f.dump()!=txt: bad['noop-changed']+=1; ex.setdefault('noop',(txt,f.dump())); continue
    model=list(exp); hist=[]
    reformat=rnd.random()<.3
    try:
        with p.as_interpreted_dict_view(interp)['F'] as l:
            if reformat: l.reformat_when_finished()
            for _ in range(rnd.randint(1,4)):
                op=rnd.choice(['append','remove','replace','ref-set','ref-remove'])
                if op=='append': v=words(comma); l.append(v); model.append(v); hist.append((op,v))
                elif op=='remove' and len(model)>1:
                    v=rnd.choice(model); l.remove(v); model.remove(v); hist.append((op,v))
                elif op=='replace' and model:
                    v=rnd.choice(model); l.replace(v,'RPL'); model[model.index(v)]='RPL'; hist.append((op,v))
                elif op=='ref-set' and model:
                    refs=list(l.iter_value_references()); k=rnd.randrange(len(refs)); assert refs[k].value==model[k]; refs[k].value='REF'; model[k]='REF'; hist.append((op,k))
                elif op=='ref-remove' and len(model)>1:
                    refs=list(l.iter_value_references()); k=rnd.randrange(len(refs)); refs[k].remove(); model.pop(k); hist.append((op,k))
                if list(l)!=model: raise AssertionError(('live-list',list(l),model))
    except Exception as e:
        bad['edit-exc:'+type(e).__name__]+=1; ex.setdefault('edit-exc:'+type(e).__name__+str(comma),(txt,hist,reformat,repr(e))); continue
    if not hist: continue
    out=f.dump()
    try:
        f2=parse_deb822_file(out.splitlines(True)); ps2=list(f2); p2=ps2[0]
        got2=list(p2.as_interpreted_dict_view(interp)['F'])
    except Exception as e:
        bad['reparse-exc']+=1; ex.setdefault('reparse-exc'+str(comma),(txt,hist,reformat,out,repr(e))); continue
    if got2!=model: bad['edit-result']+=1; ex.setdefault('edit-result:'+str(comma)+str(reformat),(txt,hist,out,got2,model)); continue
    if len(ps2)!=1: bad['split']+=1; ex.setdefault('split',(txt,hist,out))
    orig={'Package':'Package: p\n','Other':'# fc\nOther: keep  me \n','Tail':'Tail: t\n more\n'}
    for k,o in orig.items():
        b=p2.get_kvpair_element(k).convert_to_text()
        if b!=o and not (b==o[:-1] and out.endswith(b)): bad['other-changed']+=1; ex.setdefault('other-changed',(txt,hist,out,k,b))
    if list(p2.keys())!=list(next(iter(parse_deb822_file(txt.splitlines(True)))).keys()): bad['order']+=1
print(bad)
for k,v in ex.items(): print('====',k); print(str(v)[:1200])
