import random, collections
from debian._deb822_repro import parse_deb822_file
from debian._deb822_repro.parsing import Deb822ParagraphElement, Deb822FileElement
rnd=random.Random(5)
bad=collections.Counter(); ex={}
def para_text(uid): return ''.join('%s: v%d\n'%(n,uid) for n in rnd.sample(['A','B','C'],rnd.randint(1,3)))
for it in range(20000):
    n=rnd.randint(0,3)
    ptxt=[para_text(i) for i in range(n)]
    seps=[rnd.choice(['\n','\n\n','\n# free\n\n','# tight comment\n\n']) for _ in range(n)]
    lead=rnd.choice(['','\n','# lead\n\n','# lead-tight\n'])
    trail=rnd.choice(['','','\n','# trail\n','\n# trail\n'])
    body=''
    for i,t in enumerate(ptxt):
        body+=t
        if i<n-1: body+=seps[i]
    txt=lead+body+trail if n else rnd.choice(['','# only comment\n','\n'])
    final_nl=True
    if n and trail=='' and rnd.random()<.5: txt=txt[:-1]; final_nl=False
    if txt=='': f=Deb822FileElement.new_empty_file()
    else:
        try: f=parse_deb822_file(txt.splitlines(True))
        except Exception as e: bad['parse-exc']+=1; ex.setdefault('parse-exc',(txt,repr(e))); continue
    model=[dict((l.split(': ')[0],l.split(': ')[1].strip()) for l in t.splitlines()) for t in ptxt]
    hist=[]
    okk=True
    for step in range(rnd.randint(1,3)):
        newp=Deb822ParagraphElement.new_empty_paragraph()
        d={'N%d'%step:'x','M':'y%d'%step}
        for k,v in d.items(): newp[k]=v
        if rnd.random()<.5:
            idx=rnd.randint(0,len(model)+1); hist.append(('insert',idx))
            try: f.insert(idx,newp)
            except Exception as e: bad['insert-exc']+=1; ex.setdefault('insert-exc',(txt,hist,repr(e))); okk=False; break
            model.insert(min(idx,len(model)),d)
        else:
            hist.append(('append',))
            try: f.append(newp)
            except Exception as e: bad['append-exc']+=1; ex.setdefault('append-exc',(txt,hist,repr(e))); okk=False; break
            model.append(d)
        out=f.dump()
        try:
            f2=parse_deb822_file(out.splitlines(True))
            got=[{k:p[k] for k in p} for p in f2]
        except Exception as e:
            bad['reparse-exc:'+hist[-1][0]]+=1; ex.setdefault('reparse-exc:'+hist[-1][0],(txt,hist,out,repr(e))); okk=False; break
        if got!=model:
            bad['merge:'+hist[-1][0]+(':nofinalnl' if not final_nl else '')]+=1; ex.setdefault('merge:'+hist[-1][0]+(':nofinalnl' if not final_nl else ''),(txt,hist,out,got,model)); okk=False; break
        # original paragraph texts preserved
        for t in ptxt:
            if t not in out and t[:-1] not in out: bad['text-lost']+=1; ex.setdefault('text-lost',(txt,hist,out))
        # comments preserved
        for c in ['# free\n','# lead\n','# trail\n','# tight comment\n','# lead-tight\n']:
            if txt.count(c)!=out.count(c): bad['comment-lost']+=1; ex.setdefault('comment-lost',(txt,hist,out))
print(bad)
for k,v in ex.items(): print('====',k); print(v)
